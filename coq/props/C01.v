(* C01 — The emitted Go client and the emitted Go server agree on one call: outside the known defect
   classes the handler sees the request the caller sent, and the caller gets the handler's reply.
   Only statements, [exact <lemma>], Print Assumptions, and examples checked by computation. *)
From Sebuf Require Import Text Json Route Schema Value Num Url GoRt.
From SebufProofs Require Import NumFacts UrlFacts GoRtFacts.

(* ---- A. fmt.Sprint then strconv.Parse* gives the number back ------------------------------------- *)

Theorem C01_parse_nat_show : forall n : N, parse_nat (show_nat_N n) = Some n.
Proof. exact parse_nat_show. Qed.
Print Assumptions C01_parse_nat_show.

Theorem C01_parse_int_show : forall bits z, (0 < bits)%N ->
  (- 2 ^ Z.of_N (bits - 1) <= z < 2 ^ Z.of_N (bits - 1))%Z ->
  parse_int bits (show_int z) = Some z.
Proof. exact parse_int_show. Qed.
Print Assumptions C01_parse_int_show.

Theorem C01_parse_uint_show : forall bits z, (0 <= z < 2 ^ Z.of_N bits)%Z ->
  parse_uint bits (show_int z) = Some z.
Proof. exact parse_uint_show. Qed.
Print Assumptions C01_parse_uint_show.

Theorem C01_parse_bool_show : forall b, parse_bool (show_bool b) = Some b.
Proof. exact parse_bool_show. Qed.
Print Assumptions C01_parse_bool_show.

Theorem C01_show_int_first : forall z, exists c r,
  show_int z = c :: r /\ (is_digit c = true \/ c = "-"%char).
Proof. exact show_int_first. Qed.
Print Assumptions C01_show_int_first.

Theorem C01_show_int_nonempty : forall z, show_int z <> [].
Proof. exact show_int_nonempty. Qed.
Print Assumptions C01_show_int_nonempty.

Theorem C01_show_int_not_dirty : forall z, dirty_seg (show_int z) = false.
Proof. exact show_int_not_dirty. Qed.
Print Assumptions C01_show_int_not_dirty.

Theorem C01_show_int_not_slash : forall z, str_eqb (show_int z) [slash] = false.
Proof. exact show_int_not_slash. Qed.
Print Assumptions C01_show_int_not_slash.

(* ---- B. net/url ------------------------------------------------------------------------------------ *)

Theorem C01_path_unescape_escape : forall x, path_unescape (path_escape x) = Some x.
Proof. exact path_unescape_escape. Qed.
Print Assumptions C01_path_unescape_escape.

Theorem C01_query_unescape_escape : forall x, query_unescape (query_escape x) = Some x.
Proof. exact query_unescape_escape. Qed.
Print Assumptions C01_query_unescape_escape.

Theorem C01_path_escape_no_slash : forall x, In slash (path_escape x) -> False.
Proof. exact path_escape_no_slash. Qed.
Print Assumptions C01_path_escape_no_slash.

Theorem C01_path_escape_nil_iff : forall x, path_escape x = [] <-> x = [].
Proof. exact path_escape_nil_iff. Qed.
Print Assumptions C01_path_escape_nil_iff.

Theorem C01_split_on_join : forall c l, l <> [] -> (forall x, In x l -> ~ In c x) ->
  split_on c (join_with [c] l) = l.
Proof. exact split_on_join. Qed.
Print Assumptions C01_split_on_join.

Theorem C01_query_escape_clean : forall x c, In c (query_escape x) ->
  c <> amp /\ c <> eqc /\ c <> ";"%char.
Proof. exact query_escape_clean. Qed.
Print Assumptions C01_query_escape_clean.

(* holds for every list of pairs: an encoded pair always contains '=' and so is never empty *)
Theorem C01_parse_query_encode : forall kv, parse_query (encode_query kv) = sort_kv kv.
Proof. exact parse_query_encode_all. Qed.
Print Assumptions C01_parse_query_encode.

(* ---- C. scalars, message values, matching ------------------------------------------------------------ *)

Theorem C01_convert_sprint : forall k v, url_kind_ok k = true -> typed_scalar k v ->
  convert k (sprint v) = Some v.
Proof. exact convert_sprint. Qed.
Print Assumptions C01_convert_sprint.

Theorem C01_scalar_of_mset_same : forall fs m f v,
  url_kind_ok (f_kind f) = true -> typed_scalar (f_kind f) v ->
  scalar_of (mset_scalar fs m f v) f = v.
Proof. exact scalar_of_mset_same. Qed.
Print Assumptions C01_scalar_of_mset_same.

Theorem C01_scalar_of_mset_other : forall fs m f v g, f_name g <> f_name f ->
  scalar_of (mset_scalar fs m f v) g = scalar_of m g.
Proof. exact scalar_of_mset_other. Qed.
Print Assumptions C01_scalar_of_mset_other.

(* re-binding a URL-capable singular field with the value a canonical message already gives it changes
   nothing *)
Theorem C01_rebind_canonical : forall fs m f, canonical fs m ->
  find_field fs (f_name f) = Some f -> field_url_ok f = true ->
  mset_scalar fs m f (scalar_of m f) = m.
Proof. exact mset_scalar_same_canonical. Qed.
Print Assumptions C01_rebind_canonical.

(* a pattern matches its own filled segments and yields the printed values of its variables *)
Theorem C01_match_fill : forall fs req segs filled,
  all_ok (map (fill_seg fs req) segs) = Ok filled ->
  (forall v, In v (seg_vars segs) -> var_val fs req v <> [] /\ var_val fs req v <> [slash]) ->
  match_segs segs filled = Some (bindings fs req (seg_vars segs)).
Proof. exact match_fill. Qed.
Print Assumptions C01_match_fill.

(* a segment without '%' unescapes to itself *)
Theorem C01_lit_no_pct : forall x, ~ In "%"%char x -> seg_unescape x = x.
Proof. exact seg_unescape_no_pct. Qed.
Print Assumptions C01_lit_no_pct.

(* ---- the end-to-end theorems -------------------------------------------------------------------------- *)

(* POST / PUT / PATCH: the handler sees exactly the request, the caller gets exactly the reply.
   Premises besides the empty defect list: the method belongs to the service, method names are distinct,
   path-bound values print non-empty (the property's own premise), URL-capable fields are well typed, and
   the request is a canonical value (strictly increasing field numbers, every key a field, URL-capable
   singular scalars stored only when non-zero — what the harness's MsgCanon produces): the server applies
   the path values on top of the decoded body, and that gives the request back only for canonical values. *)
Theorem C01_body_verbs : forall sc fl sv md ct req resp w o,
  go_call sc fl sv md ct req resp = Ok (w, o) ->
  defects_C01 sc fl sv md ct req = [] ->
  verb_has_body (eff_verb (info_of fl sv md (in_fields sc md))) = true ->
  In md (sv_methods sv) -> NoDup (map md_name (sv_methods sv)) ->
  path_vals_nonempty (in_fields sc md) req (path_vars (info_of fl sv md (in_fields sc md))) = true ->
  req_typed (in_fields sc md) req ->
  canonical (in_fields sc md) req ->
  o = Delivered req resp.
Proof. exact go_call_body. Qed.
Print Assumptions C01_body_verbs.

(* GET / DELETE: every field of the input travels on the URL; the handler sees the same scalars. *)
Theorem C01_bodiless_verbs : forall sc fl sv md ct req resp w o,
  go_call sc fl sv md ct req resp = Ok (w, o) ->
  defects_C01 sc fl sv md ct req = [] ->
  verb_has_body (eff_verb (info_of fl sv md (in_fields sc md))) = false ->
  In md (sv_methods sv) -> NoDup (map md_name (sv_methods sv)) ->
  path_vals_nonempty (in_fields sc md) req (path_vars (info_of fl sv md (in_fields sc md))) = true ->
  req_typed (in_fields sc md) req ->
  NoDup (map f_name (in_fields sc md)) ->
  (forall f, In f (in_fields sc md) ->
     In (f_name f) (path_vars (info_of fl sv md (in_fields sc md))) \/ f_query f <> None) ->
  exists saw, o = Delivered saw resp /\
              forall f, In f (in_fields sc md) -> scalar_of saw f = scalar_of req f.
Proof. exact go_call_nobody. Qed.
Print Assumptions C01_bodiless_verbs.

(* what an empty defect list gives beyond the original seven classes: the variables of the client's
   template are exactly those of the method's own path *)
Theorem C01_template_ok_of_defects : forall sc fl sv md ct req resp w o,
  go_call sc fl sv md ct req resp = Ok (w, o) ->
  defects_C01 sc fl sv md ct req = [] ->
  template_ok (info_of fl sv md (in_fields sc md)) = true.
Proof. exact template_ok_of_defects. Qed.
Print Assumptions C01_template_ok_of_defects.

Theorem C01_defects_side_conditions : forall sc fl sv md ct req,
  defects_C01 sc fl sv md ct req = [] ->
  (verb_has_body (eff_verb (info_of fl sv md (in_fields sc md))) = false ->
     forall f, In f (query_fields (in_fields sc md)) -> qrequired f = true ->
               is_zero (scalar_of req f) = false) /\
  ~ In lbrace (ri_base (info_of fl sv md (in_fields sc md))) /\
  (verb_has_body (eff_verb (info_of fl sv md (in_fields sc md))) = false ->
     NoDup (map qname (query_fields (in_fields sc md)))).
Proof. exact defects_nil_inv2. Qed.
Print Assumptions C01_defects_side_conditions.

(* the same with every side condition as one boolean, checkable by computation *)
Theorem C01_body_verbs_b : forall sc fl sv md ct req resp w o,
  go_call sc fl sv md ct req resp = Ok (w, o) ->
  defects_C01 sc fl sv md ct req = [] ->
  In md (sv_methods sv) ->
  wf_body sc fl sv md req = true ->
  o = Delivered req resp.
Proof. exact go_call_body_b. Qed.
Print Assumptions C01_body_verbs_b.

Theorem C01_bodiless_verbs_b : forall sc fl sv md ct req resp w o,
  go_call sc fl sv md ct req resp = Ok (w, o) ->
  defects_C01 sc fl sv md ct req = [] ->
  In md (sv_methods sv) ->
  wf_nobody sc fl sv md req = true ->
  exists saw, o = Delivered saw resp /\
              forall f, In f (in_fields sc md) -> scalar_of saw f = scalar_of req f.
Proof. exact go_call_nobody_b. Qed.
Print Assumptions C01_bodiless_verbs_b.

(* a template is read the same way by ExtractPathParams and by the segment-wise reading *)
Theorem C01_extract_tsegs : forall p segs, tsegs p = Some segs -> extract_path_params p = seg_vars segs.
Proof. exact extract_tsegs. Qed.
Print Assumptions C01_extract_tsegs.

(* ---- non-vacuity ------------------------------------------------------------------------------------------ *)

Definition mkf (n : str) (num : Z) (k : kind) (q : option query_cfg) : field :=
  {| f_name := n; f_number := num; f_kind := k; f_card := Singular; f_oneof := None; f_query := q;
     f_unwrap := false; f_int64 := None; f_enumenc := None; f_nullable := None; f_empty := None;
     f_tsfmt := None; f_bytesenc := None; f_oneof_value := None; f_flatten := None;
     f_flatten_prefix := None |}.
Definition mkmsg (n : str) (fs : list field) : message :=
  {| m_name := n; m_path := [n]; m_fields := fs; m_oneofs := [] |}.
Definition mkmd (n inp path : str) (v : nat) : method :=
  {| md_name := n; md_in := inp; md_out := s "Resp"; md_has_cfg := true; md_path := path;
     md_verb := Some v; md_headers := [] |}.
Definition mksv (base : str) (mds : list method) : service :=
  {| sv_name := s "Items"; sv_base := base; sv_headers := []; sv_methods := mds |}.
Definition mkfl (ms : list message) (sv : service) : file :=
  {| fl_path := s "a.proto"; fl_package := s "pkg"; fl_gopkg := s "pkg"; fl_generate := true;
     fl_messages := ms; fl_enums := []; fl_services := [sv] |}.

(* PUT /api/items/{id}/sub/{n} (string and int64 path variables, one body-only field),
   GET /api/items/{id}?page=..&q=.. *)
Definition put_md := mkmd (s "PutItem") (s "PutReq") (s "/items/{id}/sub/{n}") 3.
Definition get_md := mkmd (s "GetItem") (s "GetReq") (s "/items/{id}") 1.
Definition put_msg := mkmsg (s "PutReq")
  [mkf (s "id") 1 KString None; mkf (s "n") 2 KInt64 None; mkf (s "note") 3 KString None].
Definition get_msg := mkmsg (s "GetReq")
  [mkf (s "id") 1 KString None;
   mkf (s "page") 2 KInt32 (Some {| q_name := s "page"; q_required := false |});
   mkf (s "q") 3 KString (Some {| q_name := s "q"; q_required := true |})].
Definition sv1 := mksv (s "/api") [put_md; get_md].
Definition fl1 := mkfl [put_msg; get_msg; mkmsg (s "Resp") []] sv1.
Definition sc1 : schema := [fl1].
Definition resp1 : mval := [(s "ok", FS (VBool true))].
Definition put_req : mval :=
  [(s "id", FS (VStr (s "a b/c%"))); (s "n", FS (VInt (-5))); (s "note", FS (VStr (s "x")))].
Definition get_req : mval :=
  [(s "id", FS (VStr (s "a b/c%"))); (s "page", FS (VInt 7)); (s "q", FS (VStr (s "x y&z=1")))].

Example C01_body_nonvacuous :
  wf_body sc1 fl1 sv1 put_md put_req = true /\
  defects_C01 sc1 fl1 sv1 put_md CtJSON put_req = [] /\
  In put_md (sv_methods sv1) /\
  exists w, go_call sc1 fl1 sv1 put_md CtJSON put_req resp1 = Ok (w, Delivered put_req resp1) /\
            w_path w = s "/api/items/a%20b%2Fc%25/sub/-5".
Proof.
  vm_compute. split; [reflexivity|]. split; [reflexivity|].
  split; [left; reflexivity|]. eexists. split; reflexivity.
Qed.

Example C01_bodiless_nonvacuous :
  wf_nobody sc1 fl1 sv1 get_md get_req = true /\
  defects_C01 sc1 fl1 sv1 get_md CtProto get_req = [] /\
  In get_md (sv_methods sv1) /\
  exists w, go_call sc1 fl1 sv1 get_md CtProto get_req resp1 = Ok (w, Delivered get_req resp1) /\
            w_path w = s "/api/items/a%20b%2Fc%25" /\
            w_query w = [(s "page", s "7"); (s "q", s "x y&z=1")].
Proof.
  vm_compute. split; [reflexivity|]. split; [reflexivity|]. split; [right; left; reflexivity|].
  eexists. repeat split; reflexivity.
Qed.

(* a literal template segment holding a percent escape is routed: ServeMux unescapes literal pattern
   segments at registration and compares them with the unescaped request segment *)
Definition pct_md := mkmd (s "PutItem") (s "PutReq") (s "/a%41/{id}/sub/{n}") 3.
Definition sv_pct := mksv (s "/api") [pct_md].
Definition fl_pct := mkfl [put_msg] sv_pct.
Example C01_escaped_literal_is_routed :
  wf_body [fl_pct] fl_pct sv_pct pct_md put_req = true /\
  defects_C01 [fl_pct] fl_pct sv_pct pct_md CtJSON put_req = [] /\
  exists w, go_call [fl_pct] fl_pct sv_pct pct_md CtJSON put_req resp1 = Ok (w, Delivered put_req resp1) /\
            w_path w = s "/api/a%41/a%20b%2Fc%25/sub/-5".
Proof. vm_compute. split; [reflexivity|]. split; [reflexivity|]. eexists. split; reflexivity. Qed.

(* ---- refutations: each known defect class on a concrete call ------------------------------------------------ *)

Definition outcome_of (x : result (wire_req * outcome)) : option outcome :=
  match x with Ok (_, o) => Some o | Unmodelled _ => None end.

(* application/octet-stream (repaired): both sides use binary protobuf; the call is delivered intact *)
Example C01_octet_stream_delivered :
  defects_C01 sc1 fl1 sv1 put_md CtOctet put_req = [] /\
  outcome_of (go_call sc1 fl1 sv1 put_md CtOctet put_req resp1) = Some (Delivered put_req resp1).
Proof. vm_compute. split; reflexivity. Qed.

(* a path value "." is swallowed by ServeMux's path cleaning *)
Definition put_req_dot : mval := [(s "id", FS (VStr (s "."))); (s "n", FS (VInt 1))].
Example C01_refuted_dot_segment :
  defects_C01 sc1 fl1 sv1 put_md CtJSON put_req_dot = [C01DotSegment] /\
  outcome_of (go_call sc1 fl1 sv1 put_md CtJSON put_req_dot resp1) = Some NotRouted.
Proof. vm_compute. split; reflexivity. Qed.

(* a path value "/" (sent as %2F) is taken for a trailing slash *)
Definition put_req_slash : mval := [(s "id", FS (VStr (s "/"))); (s "n", FS (VInt 1))].
Example C01_refuted_slash_value :
  defects_C01 sc1 fl1 sv1 put_md CtJSON put_req_slash = [C01SlashValue] /\
  outcome_of (go_call sc1 fl1 sv1 put_md CtJSON put_req_slash resp1) = Some NotRouted.
Proof. vm_compute. split; reflexivity. Qed.

(* a required query parameter holding the zero value is not sent, and the server rejects the call *)
Definition get_req_zero : mval := [(s "id", FS (VStr (s "a")))].
Example C01_refuted_required_query_zero :
  defects_C01 sc1 fl1 sv1 get_md CtJSON get_req_zero = [C01RequiredQueryZeroElided] /\
  outcome_of (go_call sc1 fl1 sv1 get_md CtJSON get_req_zero resp1) = Some (Rejected (s "q")).
Proof. vm_compute. split; reflexivity. Qed.

(* a variable in the service base path: the client replaces only the method path's variables, "{tenant}"
   stays in the URL and net/url re-encodes the whole path — outside the model *)
Definition get2_md := mkmd (s "GetItem") (s "GetReq2") (s "/items/{id}") 1.
Definition get2_msg := mkmsg (s "GetReq2") [mkf (s "id") 1 KString None; mkf (s "tenant") 2 KString None].
Definition sv_base := mksv (s "/t/{tenant}") [get2_md].
Definition fl_base := mkfl [get2_msg] sv_base.
Definition get2_req : mval := [(s "id", FS (VStr (s "a"))); (s "tenant", FS (VStr (s "acme")))].
Example C01_base_path_variable_unmodelled :
  defects_C01 [fl_base] fl_base sv_base get2_md CtJSON get2_req = [C01BasePathVariable] /\
  go_call [fl_base] fl_base sv_base get2_md CtJSON get2_req resp1
    = Unmodelled (s "client path needs net/url re-encoding").
Proof. vm_compute. split; reflexivity. Qed.

(* likewise a literal byte that net/url would re-encode (here a space) *)
Definition sp_md := mkmd (s "PutItem") (s "PutReq") (s "/a b/{id}/sub/{n}") 3.
Definition sv_sp := mksv (s "/api") [sp_md].
Definition fl_sp := mkfl [put_msg] sv_sp.
Example C01_literal_needing_reencoding_unmodelled :
  go_call [fl_sp] fl_sp sv_sp sp_md CtJSON put_req resp1
    = Unmodelled (s "client path needs net/url re-encoding").
Proof. vm_compute. reflexivity. Qed.

(* two query fields sharing a parameter name: both fields read one value *)
Definition get3_msg := mkmsg (s "GetReq")
  [mkf (s "id") 1 KString None;
   mkf (s "a") 2 KInt32 (Some {| q_name := s "p"; q_required := false |});
   mkf (s "b") 3 KInt32 (Some {| q_name := s "p"; q_required := false |})].
Definition sv_dup := mksv (s "/api") [get_md].
Definition fl_dup := mkfl [get3_msg] sv_dup.
Definition get3_req : mval := [(s "id", FS (VStr (s "x"))); (s "a", FS (VInt 1)); (s "b", FS (VInt 2))].
Example C01_refuted_duplicate_query_name :
  defects_C01 [fl_dup] fl_dup sv_dup get_md CtJSON get3_req = [C01DuplicateQueryName] /\
  outcome_of (go_call [fl_dup] fl_dup sv_dup get_md CtJSON get3_req resp1)
    = Some (Delivered [(s "id", FS (VStr (s "x"))); (s "a", FS (VInt 1)); (s "b", FS (VInt 1))] resp1).
Proof. vm_compute. split; reflexivity. Qed.

(* ---- the property's own premise -------------------------------------------------------------------------------- *)

(* an empty string in a path variable: "//" in the path, redirected by the mux; path-bound values are
   assumed non-empty by the property, so this carries no defect tag *)
Definition put_req_empty : mval := [(s "n", FS (VInt (-5)))].
Example C01_needs_nonempty_path_value :
  defects_C01 sc1 fl1 sv1 put_md CtJSON put_req_empty = [] /\
  path_vals_nonempty (in_fields sc1 put_md) put_req_empty
     (path_vars (info_of fl1 sv1 put_md (in_fields sc1 put_md))) = false /\
  outcome_of (go_call sc1 fl1 sv1 put_md CtJSON put_req_empty resp1) = Some NotRouted.
Proof. vm_compute. repeat split; reflexivity. Qed.


(* a request that is not canonical (here the path-bound int64 is stored although it is zero): the handler
   sees the canonical form of it, not the term the caller passed *)
Definition put_req_noncanon : mval := [(s "id", FS (VStr (s "a"))); (s "n", FS (VInt 0))].
Example C01_needs_canonical_request :
  defects_C01 sc1 fl1 sv1 put_md CtJSON put_req_noncanon = [] /\
  canonicalb (in_fields sc1 put_md) put_req_noncanon = false /\
  outcome_of (go_call sc1 fl1 sv1 put_md CtJSON put_req_noncanon resp1)
    = Some (Delivered [(s "id", FS (VStr (s "a")))] resp1).
Proof. vm_compute. repeat split; reflexivity. Qed.

(* ---- subtree routes (a method path ending in '/') ------------------------------------------------------------------ *)

(* GET /api/ (subtree) next to GET /api/one and PUT /api/x/{id}: the more specific pattern serves its own
   path; the subtree route serves the rest *)
Definition list_md := mkmd (s "List") (s "QReq") (s "/") 1.
Definition one_md := mkmd (s "One") (s "QReq") (s "/one") 1.
Definition putx_md := mkmd (s "PutX") (s "XReq") (s "/x/{id}") 3.
Definition q_msg := mkmsg (s "QReq") [mkf (s "page") 1 KInt32 (Some {| q_name := s "page"; q_required := false |})].
Definition x_msg := mkmsg (s "XReq") [mkf (s "id") 1 KString None].
Definition sv_root := mksv (s "/api") [list_md; one_md; putx_md].
Definition fl_root := mkfl [q_msg; x_msg] sv_root.
Definition q_req : mval := [(s "page", FS (VInt 3))].

Example C01_subtree_route_is_least_specific :
  defects_C01 [fl_root] fl_root sv_root one_md CtJSON q_req = [] /\
  outcome_of (go_call [fl_root] fl_root sv_root one_md CtJSON q_req resp1) = Some (Delivered q_req resp1) /\
  defects_C01 [fl_root] fl_root sv_root list_md CtJSON q_req = [] /\
  outcome_of (go_call [fl_root] fl_root sv_root list_md CtJSON q_req resp1) = Some (Delivered q_req resp1).
Proof. vm_compute. repeat split; reflexivity. Qed.

(* a path that the mux would redirect (dot segment) while a subtree route is registered: the redirect
   may reach a handler — outside the model *)
Example C01_redirect_into_subtree_unmodelled :
  go_call [fl_root] fl_root sv_root putx_md CtJSON [(s "id", FS (VStr (s ".")))] resp1
    = Unmodelled (s "redirect into a subtree route").
Proof. vm_compute. reflexivity. Qed.

(* a request path that is a registered subtree pattern minus its trailing slash ("/x" with POST /x/
   registered) and has no exact match: the mux redirects to "/x/" — outside the model.  (Here the path
   comes from the client's default route for an RPC without configured path.) *)
Definition xs_md := mkmd (s "Sub") (s "XReq") (s "/x/") 2.
Definition xd_md : method :=
  {| md_name := s "X"; md_in := s "XReq"; md_out := s "Resp"; md_has_cfg := false; md_path := [];
     md_verb := None; md_headers := [] |}.
Definition sv_xs := mksv [] [xs_md; xd_md].
Definition fl_xs := mkfl [x_msg] sv_xs.
Example C01_slash_redirect_unmodelled :
  go_call [fl_xs] fl_xs sv_xs xd_md CtJSON [(s "id", FS (VStr (s "a")))] resp1
    = Unmodelled (s "redirect into a subtree route").
Proof. vm_compute. reflexivity. Qed.

(* ---- witnesses for the route and registration defect classes cited in KNOWN_FINDINGS.jsonl ------------------------- *)

Definition dispatched (sc : schema) (fl : file) (sv : service) (md : method) (ct : ctype) (req : mval)
  : option str :=
  match client_build fl sv md (in_fields sc md) ct req, server_routes sc fl sv with
  | Ok w, Ok (Some rs) => dispatched_to rs w
  | _, _ => None
  end.
Definition wire_path (x : result (wire_req * outcome)) : option str :=
  match x with Ok (w, _) => Some (w_path w) | Unmodelled _ => None end.
Definition x_req : mval := [(s "id", FS (VStr (s "a")))].

(* an RPC without configured path: the client calls /<lowerCamelMethod>, the server listens on
   /<gopkg>/<snake_method> *)
Definition cu_md : method :=
  {| md_name := s "CreateUser"; md_in := s "XReq"; md_out := s "Resp"; md_has_cfg := false; md_path := [];
     md_verb := None; md_headers := [] |}.
Definition sv_def := mksv [] [cu_md].
Definition fl_def := mkfl [x_msg] sv_def.
Example C01_refuted_default_path :
  defects_C01 [fl_def] fl_def sv_def cu_md CtJSON x_req = [C01Route DefaultPath] /\
  wire_path (go_call [fl_def] fl_def sv_def cu_md CtJSON x_req resp1) = Some (s "/createUser") /\
  rt_path (go_server (info_of fl_def sv_def cu_md (in_fields [fl_def] cu_md))) = s "/pkg/create_user" /\
  outcome_of (go_call [fl_def] fl_def sv_def cu_md CtJSON x_req resp1) = Some NotRouted.
Proof. vm_compute. repeat split; reflexivity. Qed.

(* a base path without leading slash: the server registers the host pattern "api/x/{id}" *)
Definition sv_bns := mksv (s "api") [putx_md].
Definition fl_bns := mkfl [x_msg] sv_bns.
Example C01_refuted_base_no_leading_slash :
  defects_C01 [fl_bns] fl_bns sv_bns putx_md CtJSON x_req = [C01Route BaseNoLeadingSlash] /\
  wire_path (go_call [fl_bns] fl_bns sv_bns putx_md CtJSON x_req resp1) = Some (s "/api/x/a") /\
  rt_path (go_server (info_of fl_bns sv_bns putx_md (in_fields [fl_bns] putx_md))) = s "api/x/{id}" /\
  outcome_of (go_call [fl_bns] fl_bns sv_bns putx_md CtJSON x_req resp1) = Some NotRouted.
Proof. vm_compute. repeat split; reflexivity. Qed.

(* a method path without leading slash and no base path: a host pattern ("x/{id}"), or — for a single
   word without any slash — a pattern ServeMux refuses *)
Definition pns_md := mkmd (s "PutX") (s "XReq") (s "x/{id}") 3.
Definition sv_pns := mksv [] [pns_md].
Definition fl_pns := mkfl [x_msg] sv_pns.
Definition word_md := mkmd (s "PutX") (s "XReq") (s "x") 3.
Definition sv_word := mksv [] [word_md].
Definition fl_word := mkfl [x_msg] sv_word.
Example C01_refuted_path_no_leading_slash :
  defects_C01 [fl_pns] fl_pns sv_pns pns_md CtJSON x_req = [C01Route PathNoLeadingSlashNoBase] /\
  wire_path (go_call [fl_pns] fl_pns sv_pns pns_md CtJSON x_req resp1) = Some (s "/x/a") /\
  outcome_of (go_call [fl_pns] fl_pns sv_pns pns_md CtJSON x_req resp1) = Some NotRouted /\
  defects_C01 [fl_word] fl_word sv_word word_md CtJSON x_req
    = [C01Route PathNoLeadingSlashNoBase; C01UncleanPattern] /\
  outcome_of (go_call [fl_word] fl_word sv_word word_md CtJSON x_req resp1) = Some RegistrationPanic.
Proof. vm_compute. repeat split; reflexivity. Qed.

(* a required query parameter on PUT: the client sends it in the body only, the server demands it in the
   query string *)
Definition rq_msg := mkmsg (s "RReq")
  [mkf (s "id") 1 KString None; mkf (s "q") 2 KString (Some {| q_name := s "q"; q_required := true |})].
Definition rqb_md := mkmd (s "PutR") (s "RReq") (s "/items/{id}") 3.
Definition sv_rqb := mksv (s "/api") [rqb_md].
Definition fl_rqb := mkfl [rq_msg] sv_rqb.
Definition r_req : mval := [(s "id", FS (VStr (s "a"))); (s "q", FS (VStr (s "z")))].
Example C01_refuted_required_query :
  defects_C01 [fl_rqb] fl_rqb sv_rqb rqb_md CtJSON r_req = [C01RequiredQueryOnBodyVerb] /\
  outcome_of (go_call [fl_rqb] fl_rqb sv_rqb rqb_md CtJSON r_req resp1) = Some (Rejected (s "q")).
Proof. vm_compute. split; reflexivity. Qed.

(* GET /items/{id} with id = "special" next to GET /items/special: the sibling's handler is reached *)
Definition gi_md := mkmd (s "GetItem") (s "XReq") (s "/items/{id}") 1.
Definition gs_md := mkmd (s "GetSpecial") (s "EReq") (s "/items/special") 1.
Definition e_msg := mkmsg (s "EReq") [].
Definition sv_sib := mksv (s "/api") [gi_md; gs_md].
Definition fl_sib := mkfl [x_msg; e_msg] sv_sib.
Definition sp_req : mval := [(s "id", FS (VStr (s "special")))].
Example C01_refuted_sibling :
  defects_C01 [fl_sib] fl_sib sv_sib gi_md CtJSON sp_req = [C01SiblingRoute] /\
  dispatched [fl_sib] fl_sib sv_sib gi_md CtJSON sp_req = Some (s "GetSpecial") /\
  outcome_of (go_call [fl_sib] fl_sib sv_sib gi_md CtJSON sp_req resp1) = Some (Delivered [] resp1).
Proof. vm_compute. repeat split; reflexivity. Qed.

(* a method path with an empty segment: every plugin accepts it, ServeMux.Handle panics on it *)
Definition dbl_md := mkmd (s "PutX") (s "XReq") (s "//x/{id}") 3.
Definition sv_dbl := mksv [] [dbl_md].
Definition fl_dbl := mkfl [x_msg] sv_dbl.
Example C01_refuted_registration_panic :
  defects_C01 [fl_dbl] fl_dbl sv_dbl dbl_md CtJSON x_req = [C01UncleanPattern] /\
  outcome_of (go_call [fl_dbl] fl_dbl sv_dbl dbl_md CtJSON x_req resp1) = Some RegistrationPanic.
Proof. vm_compute. split; reflexivity. Qed.

(* ---- path variables against the declaration order ----------------------------------------------------------
   The template lists its variables in URL order, the request message declares the bound fields in its
   own order (and numbering): GET /orgs/{org_id}/members/{user_id} over MemberReq{user_id = 1; org_id = 2},
   PUT /orgs/{org_id}/members/{n} over MemberPutReq{n = 1 (int64); note = 2; org_id = 3}.  Client and server
   pair a variable with the field of the same NAME: the values arrive unswapped, under both transports. *)
Definition ord_get_md := mkmd (s "GetMember") (s "MemberReq") (s "/orgs/{org_id}/members/{user_id}") 1.
Definition ord_put_md := mkmd (s "PutMember") (s "MemberPutReq") (s "/orgs/{org_id}/members/{n}") 3.
Definition ord_get_msg := mkmsg (s "MemberReq") [mkf (s "user_id") 1 KString None; mkf (s "org_id") 2 KString None].
Definition ord_put_msg := mkmsg (s "MemberPutReq")
  [mkf (s "n") 1 KInt64 None; mkf (s "note") 2 KString None; mkf (s "org_id") 3 KString None].
Definition sv_ord := mksv (s "/api") [ord_get_md; ord_put_md].
Definition fl_ord := mkfl [ord_get_msg; ord_put_msg; mkmsg (s "Resp") []] sv_ord.
Definition sc_ord : schema := [fl_ord].
Definition ord_get_req : mval := [(s "user_id", FS (VStr (s "u-1"))); (s "org_id", FS (VStr (s "acme")))].
Definition ord_put_req : mval :=
  [(s "n", FS (VInt 7)); (s "note", FS (VStr (s "x"))); (s "org_id", FS (VStr (s "acme")))].

Example C01_permuted_path_order_delivered :
  wf_nobody sc_ord fl_ord sv_ord ord_get_md ord_get_req = true /\
  defects_C01 sc_ord fl_ord sv_ord ord_get_md CtJSON ord_get_req = [] /\
  (exists w, go_call sc_ord fl_ord sv_ord ord_get_md CtJSON ord_get_req resp1 = Ok (w, Delivered ord_get_req resp1) /\
             w_path w = s "/api/orgs/acme/members/u-1") /\
  wf_body sc_ord fl_ord sv_ord ord_put_md ord_put_req = true /\
  defects_C01 sc_ord fl_ord sv_ord ord_put_md CtProto ord_put_req = [] /\
  (exists w, go_call sc_ord fl_ord sv_ord ord_put_md CtProto ord_put_req resp1 = Ok (w, Delivered ord_put_req resp1) /\
             w_path w = s "/api/orgs/acme/members/7").
Proof.
  vm_compute. split; [reflexivity|]. split; [reflexivity|].
  split; [eexists; split; reflexivity|]. split; [reflexivity|]. split; [reflexivity|].
  eexists; split; reflexivity.
Qed.

(* a body verb whose request is fully carried by the path still sends (and the server still reads) a body *)
Definition arch_md := mkmd (s "ArchiveNote") (s "ArchiveReq") (s "/notes/{id}/archive") 2.
Definition arch_msg := mkmsg (s "ArchiveReq") [mkf (s "id") 1 KString None].
Definition sv_arch := mksv (s "/api") [arch_md].
Definition fl_arch := mkfl [arch_msg; mkmsg (s "Resp") []] sv_arch.
Definition arch_req : mval := [(s "id", FS (VStr (s "n1")))].
Example C01_fully_path_bound_post_has_body :
  defects_C01 [fl_arch] fl_arch sv_arch arch_md CtJSON arch_req = [] /\
  exists w, go_call [fl_arch] fl_arch sv_arch arch_md CtJSON arch_req resp1 = Ok (w, Delivered arch_req resp1) /\
            w_body w = Some (BJson, arch_req) /\ w_path w = s "/api/notes/n1/archive".
Proof. vm_compute. split; [reflexivity|]. eexists. repeat split; reflexivity. Qed.
