(* C01 — placeholder while the proofs are being written: statements only. *)
From Sebuf Require Import Text Json Route Schema Value GoRt.
Example C01_placeholder : True. Proof. exact I. Qed.
