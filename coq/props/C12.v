(* C12 — misused annotations stop generation; valid definitions are never refused.
   Impl = Validate.go_http_accepts / go_client_accepts / ts_server_accepts (the validators in the code's
   order), Files.emitted_go_http / emitted_go_client (nothing on refusal);
   Spec = Validate.broken_rules (the documented rules as independent predicates);
   defects_C12 = the known gaps, each with a refutation below. *)
From Sebuf Require Import Text Schema Validate Files.
From SebufProofs Require Import ValidateFacts FilesFacts.

(* Soundness: outside the gap classes, a rule broken in ANY generated file (with or without services), in ANY
   message of it (the flat message list carries every nesting depth) or RPC, makes protoc-gen-go-http answer
   with an error that names the field / oneof / path variable of a rule that really is broken, and no files. *)
Theorem C12_sound : forall sc mock, dom_C12 sc = true -> defects_C12 sc = [] -> broken_generated sc <> [] ->
  exists e, go_http_accepts sc = Some e /\ named_violation (broken_generated sc) e /\ emitted_go_http mock sc = [].
Proof. exact C12_sound_lemma. Qed.
Print Assumptions C12_sound.

(* ... and protoc-gen-go-client likewise for every JSON-mapping rule it implements (all but unwrap; not the HTTP rules) *)
Theorem C12_sound_client : forall sc, dom_C12 sc = true -> defects_C12 sc = [] ->
  (exists v, In v (broken_generated sc) /\ client_rule (v_rule v) = true) ->
  exists e, go_client_accepts sc = Some e /\ named_violation (broken_generated sc) e /\ emitted_go_client sc = [].
Proof. exact C12_sound_client_lemma. Qed.
Print Assumptions C12_sound_client.

(* placement: the offending message may sit in a service-less generated file and at any depth *)
Theorem C12_any_placement : forall sc f m, dom_C12 sc = true -> defects_C12 sc = [] ->
  In f sc -> fl_generate f = true -> In m (fl_messages f) -> message_violations sc m <> [] ->
  exists e, go_http_accepts sc = Some e /\ named_violation (broken_generated sc) e.
Proof. exact C12_any_placement_lemma. Qed.
Print Assumptions C12_any_placement.

(* Completeness: outside the gap classes a definition that breaks no rule is accepted by all five plugins. *)
Theorem C12_complete : forall sc, dom_C12 sc = true -> defects_C12 sc = [] -> broken_rules sc = [] ->
  go_http_accepts sc = None /\ go_client_accepts sc = None /\ ts_server_accepts sc = None /\
  ts_client_accepts sc = None /\ openapi_accepts sc = None.
Proof. exact C12_complete_lemma. Qed.
Print Assumptions C12_complete.

(* every refusal of the TS server is a broken HTTP rule (no defect hypothesis needed) *)
Theorem C12_ts_server_refusals_are_violations : forall sc e,
  ts_server_accepts sc = Some e -> named_violation (broken_generated sc) e.
Proof. exact ts_server_some_named. Qed.
Print Assumptions C12_ts_server_refusals_are_violations.

(* ---- collisions: the field that carries the colliding name may be of any kind ------------------------- *)
(* no hypothesis on f_card f (singular, repeated, map, proto3 optional = synthetic oneof in the descriptor) nor on
   f_oneof f beyond "not a member of THIS oneof" (so members of a second plain or annotated oneof count) *)
Theorem C12_discriminator_collision_any_sibling_kind : forall sc m o f,
  In o (m_oneofs m) -> oneof_configured o = true -> In f (m_fields m) -> in_oneof o f = false ->
  json_name (f_name f) = o_discriminator o ->
  oneof_msg_check sc m <> None /\ In (viol RDiscriminatorCollision (o_name o)) (message_violations sc m).
Proof. exact C12_disc_collision_any_sibling_lemma. Qed.
Print Assumptions C12_discriminator_collision_any_sibling_kind.

Theorem C12_flattened_child_collision_any_sibling_kind : forall sc m o f v c,
  In o (m_oneofs m) -> oneof_configured o = true -> o_flatten o = true ->
  In f (m_fields m) -> in_oneof o f = false ->
  In v (variants m o) -> In c (kind_children sc (f_kind v)) -> snd c = json_name (f_name f) ->
  oneof_msg_check sc m <> None /\ In (viol ROneofFlattenChildCollision (o_name o)) (message_violations sc m).
Proof. exact C12_flat_child_collision_any_sibling_lemma. Qed.
Print Assumptions C12_flattened_child_collision_any_sibling_kind.

Theorem C12_flatten_collision_any_sibling_kind : forall sc m f g c,
  (forall x, In x (m_fields m) -> flatten_field_check m x = None) ->
  In f (m_fields m) -> is_flatten f = false ->
  In g (m_fields m) -> well_formed_flatten g = true -> In c (kind_children sc (f_kind g)) ->
  flatten_prefix g ++ snd c = json_name (f_name f) ->
  flatten_msg_check sc m <> None /\ In (viol RFlattenCollision (f_name g)) (message_violations sc m).
Proof. exact C12_flatten_collision_any_sibling_lemma. Qed.
Print Assumptions C12_flatten_collision_any_sibling_kind.

(* instances evaluated through the whole pipeline: `optional string kind`, `optional Addr kind`, a member of a second
   plain / annotated oneof, a map, next to oneof content {discriminator: "kind", flatten: true}; and children of the
   flattened variant against an optional field / a member of the second oneof; the near miss is accepted *)
Example C12_sibling_kinds :
  refused (w_sibling [fld "kind" 2 KString Optional] []) = Some (EDiscCollision, EDiscCollision) /\
  refused (w_sibling [fld "kind" 2 (KMessage (s "p.Addr")) Optional] []) = Some (EDiscCollision, EDiscCollision) /\
  refused (w_sibling [in_oneof_named "other" (fld "kind" 2 KString Singular)] [plain_oneof]) = Some (EDiscCollision, EDiscCollision) /\
  refused (w_sibling [in_oneof_named "other" (fld "kind" 2 KString Singular)] [annotated_oneof]) = Some (EDiscCollision, EDiscCollision) /\
  refused (w_sibling [fld "kind" 2 KString (MapOf KString)] []) = Some (EDiscCollision, EDiscCollision) /\
  refused (w_sibling [fld "street" 2 KString Optional] []) = Some (EOneofFlatChildCollision, EOneofFlatChildCollision) /\
  refused (w_sibling [in_oneof_named "other" (fld "zip_code" 2 KInt32 Singular)] [annotated_oneof]) = Some (EOneofFlatChildCollision, EOneofFlatChildCollision) /\
  defects_C12 (w_sibling [fld "kind" 2 KString Optional] []) = [] /\
  go_http_accepts (w_sibling [fld "kinds" 2 KString Optional; in_oneof_named "other" (fld "kind_b" 3 KString Singular)] [annotated_oneof]) = None.
Proof. exact C12_sibling_kinds_lemma. Qed.

(* ---- the gaps: soundness refuted ------------------------------------------------------------------ *)
Theorem C12_refuted_repeated_field_as_path_variable :
  exists sc, dom_C12 sc = true /\ defects_C12 sc = [RepeatedFieldAsPathVariable] /\
  broken_generated sc = [viol RPathVariableNonScalar (s "id")] /\ go_http_accepts sc = None.
Proof. exact C12_refuted_repeated_pathvar_lemma. Qed.
Theorem C12_refuted_enum_conflict_on_map_value_unchecked :
  exists sc, dom_C12 sc = true /\ defects_C12 sc = [EnumConflictOnMapValueUnchecked] /\
  broken_generated sc = [viol REnumNumberWithCustomValues (s "by_key")] /\ go_http_accepts sc = None /\ go_client_accepts sc = None.
Proof. exact C12_refuted_enum_map_lemma. Qed.
Theorem C12_refuted_rule_broken_in_imported_file :
  exists sc, dom_C12 sc = true /\ defects_C12 sc = [RuleBrokenInImportedFile] /\
  broken_rules sc = [viol RNullableNonOptional (s "nick")] /\ go_http_accepts sc = None /\ go_client_accepts sc = None.
Proof. exact C12_refuted_imported_lemma. Qed.
(* ---- the gaps: completeness refuted ----------------------------------------------------------------- *)
Theorem C12_refuted_flatten_marshaljson_conflict_refused :
  exists sc, dom_C12 sc = true /\ defects_C12 sc = [FlattenMarshalJSONConflictRefused] /\
  broken_rules sc = [] /\ go_http_accepts sc <> None /\ go_client_accepts sc <> None.
Proof. exact C12_refuted_flatten_conflict_lemma. Qed.
Theorem C12_refuted_oneof_marshaljson_conflict_refused :
  exists sc, dom_C12 sc = true /\ defects_C12 sc = [OneofMarshalJSONConflictRefused] /\
  broken_rules sc = [] /\ go_http_accepts sc <> None /\ go_client_accepts sc <> None.
Proof. exact C12_refuted_oneof_conflict_lemma. Qed.
Theorem C12_refuted_flatten_on_optional_message_refused :
  exists sc, dom_C12 sc = true /\ defects_C12 sc = [FlattenOnOptionalMessageRefused] /\
  broken_rules sc = [] /\ go_http_accepts sc <> None /\ go_client_accepts sc <> None.
Proof. exact C12_refuted_flatten_optional_lemma. Qed.

(* non-vacuity: two generated files (one without services), nested + repeated + map + oneof + annotated fields *)
Example C12_nonvacuous :
  (dom_C12 [nv_types false; nv_api] = true /\ defects_C12 [nv_types false; nv_api] = [] /\ broken_rules [nv_types false; nv_api] = [] /\
   go_http_accepts [nv_types false; nv_api] = None) /\
  (dom_C12 [nv_types true; nv_api] = true /\ defects_C12 [nv_types true; nv_api] = [] /\
   broken_generated [nv_types true; nv_api] = [viol RNullableNonOptional (s "nick")] /\
   go_http_accepts [nv_types true; nv_api] = Some (mk_err ENullableNotOptional (s "Inner") [s "nick"]) /\
   go_client_accepts [nv_types true; nv_api] = Some (mk_err ENullableNotOptional (s "Inner") [s "nick"])).
Proof. exact C12_nonvacuous_lemma. Qed.
