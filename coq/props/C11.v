(* C11 — malformed traffic is rejected cleanly: the decision logic of the emitted body readers,
   custom decoders and client response handling.  (Crashes and hangs of the real process cannot be
   exhibited by a total model; they are searched for by the mutation stream of the check.) *)
From Sebuf Require Import Malformed.
From SebufProofs Require Import MalformedFacts.

(* every body is either dispatched or answered 400 *)
Theorem C11_total : forall b, status_of (go_bind_body b) = 200%N \/ status_of (go_bind_body b) = 400%N.
Proof. exact bind_total. Qed.
Print Assumptions C11_total.

(* outside the three defect classes the server dispatches exactly the bodies that were read and
   decoded completely under the declared formats, and rejects all others *)
Theorem C11_no_partial : forall b, defects_C11 b = [] -> go_bind_body b = strict_bind_body b.
Proof. exact no_partial. Qed.
Print Assumptions C11_no_partial.

Theorem C11_dispatch_sound : forall b, defects_C11 b = [] -> forall f, go_bind_body b = BDispatch f ->
  f = true /\ strict_bind_body b = BDispatch true.
Proof. exact dispatch_sound. Qed.
Print Assumptions C11_dispatch_sound.

Theorem C11_clients_total : forall r, exists c, go_client_parse r = c /\
    ((rc_status r < 400)%N -> c = CResp \/ c = CErrDecode) /\
    ((400 <= rc_status r)%N -> c = CErrValidation \/ c = CErrSebuf \/ c = CErrOther).
Proof. exact client_total. Qed.
Print Assumptions C11_clients_total.

Theorem C11_client_validation_only_400 : forall r, go_client_parse r = CErrValidation -> rc_status r = 400%N.
Proof. exact client_validation_only_400. Qed.
Print Assumptions C11_client_validation_only_400.

(* behind net/http's framing (lying Content-Length, cut or malformed chunking): one result class, and a
   value or typed error only from a completely delivered body *)
Theorem C11_client_framed_total : forall f r,
  go_client_framed f r = FRTransport \/ go_client_framed f r = FRRead \/
  exists c, go_client_framed f r = FRParsed c /\ f = FrComplete /\
    ((rc_status r < 400)%N -> c = CResp \/ c = CErrDecode) /\
    ((400 <= rc_status r)%N -> c = CErrValidation \/ c = CErrSebuf \/ c = CErrOther).
Proof. exact client_framed_total. Qed.
Print Assumptions C11_client_framed_total.

Theorem C11_client_framed_value_needs_complete : forall f r c,
  go_client_framed f r = FRParsed c -> f = FrComplete /\ c = go_client_parse r.
Proof. exact client_framed_value_needs_complete. Qed.
Print Assumptions C11_client_framed_value_needs_complete.

Theorem C11_client_framed_cut_is_error : forall f r, f <> FrComplete ->
  go_client_framed f r = FRTransport \/ go_client_framed f r = FRRead.
Proof. exact client_framed_cut_is_error. Qed.
Print Assumptions C11_client_framed_cut_is_error.

Example C11_client_framed_nonvacuous :
  go_client_framed FrBodyCutShort {| rc_status := 200; rc_empty := false; rc_as_result := true; rc_as_validation := false; rc_as_error := false |} = FRRead
  /\ go_client_framed FrComplete {| rc_status := 200; rc_empty := false; rc_as_result := true; rc_as_validation := false; rc_as_error := false |} = FRParsed CResp.
Proof. vm_compute. split; reflexivity. Qed.

Example C11_nonvacuous :
  defects_C11 {| bc_fmt := BJson; bc_read := ReadOk; bc_empty := false; bc_syntax_ok := true; bc_convs := [true; true]; bc_rest_ok := true |} = []
  /\ go_bind_body {| bc_fmt := BJson; bc_read := ReadOk; bc_empty := false; bc_syntax_ok := true; bc_convs := [true; true]; bc_rest_ok := true |} = BDispatch true.
Proof. vm_compute. split; reflexivity. Qed.

(* {"h":"abc"} on a HEX field: the hex error is dropped, protojson reads "abc" as base64 *)
Example C11_refuted_swallowed_conversion :
  let b := {| bc_fmt := BJson; bc_read := ReadOk; bc_empty := false; bc_syntax_ok := true; bc_convs := [false]; bc_rest_ok := true |} in
  defects_C11 b = [C11SwallowedConversion] /\ go_bind_body b = BDispatch false /\ strict_bind_body b = BReject.
Proof. vm_compute. repeat split; reflexivity. Qed.

Example C11_refuted_unexpected_eof :
  let b := {| bc_fmt := BBin; bc_read := ReadUnexpectedEOF; bc_empty := false; bc_syntax_ok := true; bc_convs := []; bc_rest_ok := true |} in
  defects_C11 b = [C11UnexpectedEOFTolerated] /\ go_bind_body b = BDispatch false /\ strict_bind_body b = BReject.
Proof. vm_compute. repeat split; reflexivity. Qed.

Example C11_refuted_read_error_empty :
  let b := {| bc_fmt := BBin; bc_read := ReadOtherErr; bc_empty := true; bc_syntax_ok := true; bc_convs := []; bc_rest_ok := true |} in
  defects_C11 b = [C11ReadErrorEmptyBody] /\ go_bind_body b = BDispatch false /\ strict_bind_body b = BReject.
Proof. vm_compute. repeat split; reflexivity. Qed.

(* ---- the 400 document: a rejection is answered with a ValidationError, whatever the error text quotes ---- *)
From Sebuf Require Import RejectDoc.
From SebufProofs Require Import RejectDocFacts.

Theorem C11_reject_document : forall field before token after,
  utf8_valid before = true -> utf8_valid token = true -> utf8_valid after = true ->
  go_reject_doc field before token after = RDValidation field.
Proof. exact reject_doc_well_formed. Qed.
Print Assumptions C11_reject_document.

Theorem C11_reject_document_any_length : forall field before pad n unit after,
  utf8_valid before = true -> utf8_valid pad = true -> utf8_valid unit = true -> utf8_valid after = true ->
  well_formed_doc (go_reject_doc field before (pad ++ rep_tok n unit) after) = true.
Proof. exact reject_doc_repeated. Qed.
Print Assumptions C11_reject_document_any_length.

(* 100 three-byte characters after a two-byte pad *)
Example C11_reject_nonvacuous :
  go_reject_doc (s "body") (s "failed to parse request body: unknown field ") (s "ab" ++ rep_tok 100 [ch 227; ch 129; ch 130]) (s "") = RDValidation (s "body").
Proof. vm_compute. reflexivity. Qed.

(* the known finding: a body that is not valid UTF-8 is echoed into the description; marshalling fails *)
Example C11_refuted_invalid_utf8_echoed :
  well_formed_doc (go_reject_doc (s "body") (s "failed to parse request body: ") [ch 255; ch 254] (s "")) = false.
Proof. vm_compute. reflexivity. Qed.

(* why the description must not be cut at a byte offset: a prefix of valid UTF-8 need not be valid *)
Example C11_byte_prefix_not_valid :
  utf8_valid [ch 227; ch 129; ch 130] = true /\ utf8_valid (firstn 2 [ch 227; ch 129; ch 130]) = false.
Proof. vm_compute. split; reflexivity. Qed.
