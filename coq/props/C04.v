(* C04 — generated Go JSON codecs round-trip every message value.
   Statements only; the proofs are in proofs/{CodecTextFacts,ProtoJsonFacts,CodecFacts}.v. *)
From Sebuf Require Import CodecCases.
From SebufProofs Require Import CodecTextFacts ProtoJsonFacts CodecExamples CodecFacts NullableFacts.

(* text layer, for ALL byte lists / integers *)
Theorem C04_base64_std : forall x, b64_dec false true (b64_enc false true x) = Some x.
Proof. exact base64_std_roundtrip. Qed.
Print Assumptions C04_base64_std.
Theorem C04_base64_raw : forall x, b64_dec false false (b64_enc false false x) = Some x.
Proof. exact base64_raw_roundtrip. Qed.
Print Assumptions C04_base64_raw.
Theorem C04_base64url : forall x, b64_dec true true (b64_enc true true x) = Some x.
Proof. exact base64url_roundtrip. Qed.
Print Assumptions C04_base64url.
Theorem C04_base64url_raw : forall x, b64_dec true false (b64_enc true false x) = Some x.
Proof. exact base64url_raw_roundtrip. Qed.
Print Assumptions C04_base64url_raw.
Theorem C04_hex : forall x, hex_dec (hex_enc x) = Some x.
Proof. exact hex_roundtrip. Qed.
Print Assumptions C04_hex.
Theorem C04_decimal : forall z, Z_of_dec (show_Z z) = Some z.
Proof. exact decimal_roundtrip. Qed.
Print Assumptions C04_decimal.

(* protojson: unmarshal (marshal m) = m for every well-typed value of every schema, under the
   library laws (floats, RFC 3339) *)
Theorem C04_pj_roundtrip : forall E, ExtLaws E -> forall sc tn m j,
  wt sc (KMessage tn) (FM m) = true -> pj_marshal E sc tn m = ROk j -> pj_unmarshal E sc tn j = ROk m.
Proof. exact pj_roundtrip. Qed.
Print Assumptions C04_pj_roundtrip.

(* the codec round trip, part proved so far: every message type without a codec of its own (that is
   what the server and client use for it), whatever annotated types occur below it.
   C04_roundtrip_nullable adds the nullable codec in general.  C04_roundtrip_full (below) is the
   statement for all message types; the other rewrite pipelines (int64 NUMBER, empty_behavior,
   timestamp_format, bytes_encoding, unwrap, non-flattened oneof) are covered by the correspondence
   check and by the witnesses, not yet by a general proof. *)
Theorem C04_roundtrip_partial : forall E, ExtLaws E -> forall sc tn m j,
  owns sc tn = false -> wt sc (KMessage tn) (FM m) = true ->
  encode E sc tn m = ROk j -> decode E sc tn j = ROk (norm sc tn m).
Proof. exact C04_roundtrip_plain. Qed.
Print Assumptions C04_roundtrip_partial.

(* the nullable codec (nullable.go), in general: every schema, every well-typed value *)
Theorem C04_roundtrip_nullable : forall E, ExtLaws E -> forall sc tn md m j,
  str_eqb tn ts_name = false -> is_wkt_other tn = false ->
  find_message (all_messages sc) tn = Some md -> owner_of sc md = Own FtNullable ->
  nodup_str (map jn (m_fields md)) = true ->
  wt sc (KMessage tn) (FM m) = true ->
  encode E sc tn m = ROk j -> decode E sc tn j = ROk (norm sc tn m).
Proof. exact nullable_roundtrip. Qed.
Print Assumptions C04_roundtrip_nullable.

Definition C04_roundtrip_full : Prop := forall E, ExtLaws E -> forall sc tn m j,
  wt sc (KMessage tn) (FM m) = true -> defects_C04 sc tn m = [] ->
  encode E sc tn m = ROk j -> decode E sc tn j = ROk (norm sc tn m).

(* refutations: one witness per defect class *)
Theorem C04_refuted_flatten_reset :
  refuted4 D4FlattenReset (q "Person") [(s "id", vstr "1"); (s "home", FM [(s "street", vstr "s")])].
Proof. exact CodecFacts.C04_refuted_flatten_reset. Qed.
Print Assumptions C04_refuted_flatten_reset.
Theorem C04_refuted_flatten_child_keys :
  defects_C04 xs (q "Post") [(s "id", vstr "1"); (s "detail", FM [(s "body_text", vstr "b")])] = [D4FlattenReset; D4FlattenChildKeys] /\
  exists j, encode Ex xs (q "Post") [(s "id", vstr "1"); (s "detail", FM [(s "body_text", vstr "b")])] = ROk j /\
            exists e, decode Ex xs (q "Post") j = RErr e.
Proof. exact CodecFacts.C04_refuted_flatten_child_keys. Qed.
Print Assumptions C04_refuted_flatten_child_keys.
Theorem C04_refuted_flat_oneof_child :
  refuted4 D4FlatOneofChild (q "FlatEvent") [(s "eid", vstr "e"); (s "wide", FM [(s "alt_text", vstr "a")])].
Proof. exact CodecFacts.C04_refuted_flat_oneof_child. Qed.
Print Assumptions C04_refuted_flat_oneof_child.
Theorem C04_refuted_flat_oneof_remarshal :
  refuted4 D4FlatOneofRemarshal (q "FlatEvent") [(s "times", FM [(s "secs", tsv 5 0)])].
Proof. exact CodecFacts.C04_refuted_flat_oneof_remarshal. Qed.
Print Assumptions C04_refuted_flat_oneof_remarshal.
Theorem C04_refuted_oneof_variant_reflect :
  refuted4 D4OneofVariantReflect (q "Event") [(s "image", FM [(s "size", vint 7)])].
Proof. exact CodecFacts.C04_refuted_oneof_variant_reflect. Qed.
Print Assumptions C04_refuted_oneof_variant_reflect.
Theorem C04_refuted_unwrap_sibling_nonfinite :
  defects_C04 xs (q "Series") [(s "ratio", FS (VFloat 9221120237041090561))] = [D4UnwrapSiblingNonFinite] /\
  exists e, encode Ex xs (q "Series") [(s "ratio", FS (VFloat 9221120237041090561))] = RErr e.
Proof. exact CodecFacts.C04_refuted_unwrap_sibling_nonfinite. Qed.
Print Assumptions C04_refuted_unwrap_sibling_nonfinite.
Theorem C04_refuted_unwrap_sibling_negzero :
  refuted4 D4UnwrapSiblingNegZero (q "Series") [(s "ratio", FS (VFloat 9223372036854775808))].
Proof. exact CodecFacts.C04_refuted_unwrap_sibling_negzero. Qed.
Print Assumptions C04_refuted_unwrap_sibling_negzero.
Theorem C04_refuted_enum_codec_unknown :
  defects_C04 xs (q "EnumSeries") [(s "st", FS (VEnum 99))] = [D4EnumCodecUnknown] /\
  exists j, encode Ex xs (q "EnumSeries") [(s "st", FS (VEnum 99))] = ROk j /\
            exists e, decode Ex xs (q "EnumSeries") j = RErr e.
Proof. exact CodecFacts.C04_refuted_enum_codec_unknown. Qed.
Print Assumptions C04_refuted_enum_codec_unknown.
Theorem C04_canonical_in_refuted :
  exists tn m j, to_json Ex xs tn m = ROk j /\ defects_C05 xs tn m <> [] /\ exists e, decode Ex xs tn j = RErr e.
Proof. exact CodecFacts.C04_canonical_in_refuted. Qed.
Print Assumptions C04_canonical_in_refuted.

(* non-vacuity *)
Example C04_nonvacuous :
  (let m := [(s "big", vint 9007199254740993); (s "name", vstr "n")] in
   owns xs (q "Nums") = true /\ defects_C04 xs (q "Nums") m = [] /\ rt_holds Ex xs (q "Nums") m = true) /\
  (let m := [(s "id", vstr "i"); (s "big_num", vint (-5)); (s "tags", FL [vstr "a"; vstr "b"]);
             (s "by_key", FMap [(VStr (s "k"), FM [(s "a", vstr "x"); (s "n", vint 3)])]);
             (s "leaf", FM []); (s "at", tsv 1700000000 500000000); (s "raw", FS (VBytes [ch 251; ch 255]));
             (s "ratio", FS (VFloat 4609434218613702656)); (s "opt_n", vint 0)] in
   wt xs (KMessage (q "Plain")) (FM m) = true /\ owns xs (q "Plain") = false /\ rt_holds Ex xs (q "Plain") m = true).
Proof. split; [exact C04_nonvacuous_int64 | exact C04_nonvacuous_plain]. Qed.
Example C04_nonvacuous_lossy :
  let m := [(s "secs", tsv 5 123456789); (s "day", tsv 90000 1); (s "id", vstr "x")] in
  defects_C04 xs (q "Times") m = [] /\ rt_holds Ex xs (q "Times") m = true /\
  norm xs (q "Times") m = [(s "secs", tsv 5 0); (s "day", tsv 86400 0); (s "id", vstr "x")].
Proof. exact C04_nonvacuous_ts_lossy. Qed.

(* ---- appended by P1_int64 ---- *)

(* the int64 NUMBER codec (encoding.go:124-319), in general: every schema, every well-typed value —
   singular and repeated NUMBER-encoded fields of all 64-bit kinds (int64, uint64, sint64, fixed64,
   sfixed64), zero elements, negatives, values beyond 2^53, the extremes of the range *)
From SebufProofs Require Import Int64Facts.
Theorem C04_roundtrip_int64 : forall E, ExtLaws E -> forall sc tn md m j,
  str_eqb tn ts_name = false -> is_wkt_other tn = false ->
  find_message (all_messages sc) tn = Some md -> owner_of sc md = Own FtInt64 ->
  buildable sc FtInt64 md = true ->
  nodup_str (map jn (m_fields md)) = true ->
  wt sc (KMessage tn) (FM m) = true ->
  encode E sc tn m = ROk j -> decode E sc tn j = ROk (norm sc tn m).
Proof. exact int64_roundtrip. Qed.
Print Assumptions C04_roundtrip_int64.

(* the same without the two schema hypotheses: they follow from wt (distinct json names) and from
   encode = ROk (the emitted code compiles) *)
Theorem C04_roundtrip_int64_min : forall E, ExtLaws E -> forall sc tn md m j,
  str_eqb tn ts_name = false -> is_wkt_other tn = false ->
  find_message (all_messages sc) tn = Some md -> owner_of sc md = Own FtInt64 ->
  wt sc (KMessage tn) (FM m) = true ->
  encode E sc tn m = ROk j -> decode E sc tn j = ROk (norm sc tn m).
Proof. exact int64_roundtrip_min. Qed.
Print Assumptions C04_roundtrip_int64_min.

Example C04_int64_nonvacuous :
  exists md,
    str_eqb (q "Wide") ts_name = false /\ is_wkt_other (q "Wide") = false /\
    find_message (all_messages i64s) (q "Wide") = Some md /\ owner_of i64s md = Own FtInt64 /\
    buildable i64s FtInt64 md = true /\ nodup_str (map jn (m_fields md)) = true /\
    wt i64s (KMessage (q "Wide")) (FM wide_val) = true /\
    encode Ex i64s (q "Wide") wide_val = ROk wide_json /\
    decode Ex i64s (q "Wide") wide_json = ROk wide_val.
Proof. exact int64_nonvacuous. Qed.

(* ---- appended by P2_bytes ---- *)

(* ---- the bytes_encoding codec (bytes_encoding.go), in general: every schema, every well-typed value,
   HEX / BASE64_RAW / BASE64URL / BASE64URL_RAW, singular and optional fields, empty and non-empty
   byte strings (proofs/BytesFacts.v) ---- *)
From SebufProofs Require Import BytesFacts BytesConforms.
Theorem C04_roundtrip_bytes : forall E, ExtLaws E -> forall sc tn md m j,
  str_eqb tn ts_name = false -> is_wkt_other tn = false ->
  find_message (all_messages sc) tn = Some md -> owner_of sc md = Own FtBytes ->
  buildable sc FtBytes md = true ->
  nodup_str (map jn (m_fields md)) = true ->
  wt sc (KMessage tn) (FM m) = true ->
  encode E sc tn m = ROk j -> decode E sc tn j = ROk (norm sc tn m).
Proof. exact bytes_roundtrip. Qed.
Print Assumptions C04_roundtrip_bytes.
(* the same without the two redundant hypotheses: distinct JSON names are part of well-typedness
   (msg_ok), and a codec that does not compile never returns a JSON value *)
Theorem C04_roundtrip_bytes_strong : forall E, ExtLaws E -> forall sc tn md m j,
  str_eqb tn ts_name = false -> is_wkt_other tn = false ->
  find_message (all_messages sc) tn = Some md -> owner_of sc md = Own FtBytes ->
  wt sc (KMessage tn) (FM m) = true ->
  encode E sc tn m = ROk j -> decode E sc tn j = ROk (norm sc tn m).
Proof. exact bytes_roundtrip_gen. Qed.
Print Assumptions C04_roundtrip_bytes_strong.
(* the encoder never writes CR / LF under an annotated key (dec_bytes declines such texts) *)
Theorem C04_bytes_encode_no_crlf : forall E sc tn md m es k x f e,
  str_eqb tn ts_name = false -> is_wkt_other tn = false ->
  find_message (all_messages sc) tn = Some md -> owner_of sc md = Own FtBytes ->
  wt sc (KMessage tn) (FM m) = true ->
  encode E sc tn m = ROk (JObj es) -> In (k, JStr x) es ->
  field_by_json (m_fields md) k = Some f -> bytesenc_of f = Some e -> has_crlf x = false.
Proof. exact bytes_encode_no_crlf. Qed.
Print Assumptions C04_bytes_encode_no_crlf.
Example C04_bytes_nonvacuous :
  exists md,
    str_eqb (q "B") ts_name = false /\ is_wkt_other (q "B") = false /\
    find_message (all_messages bxs) (q "B") = Some md /\ owner_of bxs md = Own FtBytes /\
    buildable bxs FtBytes md = true /\ nodup_str (map jn (m_fields md)) = true /\ bytesplain_msg md = true /\
    wt bxs (KMessage (q "B")) (FM bval) = true /\
    nodup_str (map fst bval) = true /\ forallb (bytes_value_ok bxs md) bval = true /\
    encode Ex bxs (q "B") bval = ROk bjson /\ to_json Ex bxs (q "B") bval = ROk bjson /\
    decode Ex bxs (q "B") bjson = ROk bval.
Proof. exact bytes_nonvacuous. Qed.
Print Assumptions C04_bytes_nonvacuous.

(* ---- appended by P3_ts ---- *)

(* the timestamp_format codec (timestamp_format.go), in general: every schema, every well-typed value
   (Timestamps in 0001-01-01..9999-12-31, nanos in [0, 1e9), negative seconds included), for
   UNIX_SECONDS, UNIX_MILLIS and DATE, modulo the documented truncation [norm] *)
From SebufProofs Require Import TimestampFacts TimestampConforms.
Theorem C04_roundtrip_ts : forall E, ExtLaws E -> forall sc tn md m j,
  str_eqb tn ts_name = false -> is_wkt_other tn = false ->
  find_message (all_messages sc) tn = Some md -> owner_of sc md = Own FtTs ->
  buildable sc FtTs md = true ->
  nodup_str (map jn (m_fields md)) = true ->
  wt sc (KMessage tn) (FM m) = true ->
  encode E sc tn m = ROk j -> decode E sc tn j = ROk (norm sc tn m).
Proof. exact ts_roundtrip. Qed.
Print Assumptions C04_roundtrip_ts.

Example C04_ts_nonvacuous :
  exists md,
    str_eqb (q "Stamps") ts_name = false /\ is_wkt_other (q "Stamps") = false /\
    find_message (all_messages tss) (q "Stamps") = Some md /\ owner_of tss md = Own FtTs /\
    buildable tss FtTs md = true /\ nodup_str (map jn (m_fields md)) = true /\
    forallb tsplain_field (m_fields md) = true /\
    wt tss (KMessage (q "Stamps")) (FM ts_sample) = true /\
    nodup_str (map fst ts_sample) = true /\ forallb (ts_entry_ok tss md) ts_sample = true /\
    encode Ex tss (q "Stamps") ts_sample =
      ROk (JObj [(s "atSecs", JNum (-5)); (s "atMillis", JNum (-1500)); (s "onDay", JStr (s "1969-12-31"));
                 (s "plainAt", JStr (s "1970-01-01T00:00:01.000000005Z")); (s "id", JStr (s "x"));
                 (s "more", JArr [JStr (s "1970-01-01T00:00:03.000000004Z")])]) /\
    to_json Ex tss (q "Stamps") ts_sample = encode Ex tss (q "Stamps") ts_sample /\
    norm tss (q "Stamps") ts_sample =
      [(s "at_secs", tsv (-5) 0); (s "at_millis", tsv (-2) 500000000); (s "on_day", tsv (-86400) 0);
       (s "plain_at", tsv 1 5); (s "id", vstr "x"); (s "more", FL [tsv 3 4])] /\
    (forall j, encode Ex tss (q "Stamps") ts_sample = ROk j ->
               decode Ex tss (q "Stamps") j = ROk (norm tss (q "Stamps") ts_sample)).
Proof. exact ts_nonvacuous. Qed.
Print Assumptions C04_ts_nonvacuous.

Example C04_ts_negative_millis_floor :
  encode Ex tss (q "Stamps") [(s "at_millis", tsv (-2) 500999999)] = ROk (JObj [(s "atMillis", JNum (-1500))]) /\
  decode Ex tss (q "Stamps") (JObj [(s "atMillis", JNum (-1500))]) = ROk [(s "at_millis", tsv (-2) 500000000)] /\
  decode Ex tss (q "Stamps") (JObj [(s "atMillis", JNum (-1))]) = ROk [(s "at_millis", tsv (-1) 999000000)].
Proof. exact ts_negative_millis_floor. Qed.
Print Assumptions C04_ts_negative_millis_floor.

(* ---- the empty_behavior codec (empty_behavior.go), in general: every schema, every well-typed value;
   PRESERVE / NULL / OMIT, children empty / non-empty / absent.  [norm] drops the presence of an empty OMIT child.
   Side condition (shown necessary below): no NULL field of type Timestamp holds the epoch.  (That the emitted
   codec compiles, [buildable sc FtEmpty md = true], follows from [encode ... = ROk j] and is not assumed.) *)
From SebufProofs Require Import MappingFacts EmptyFacts EmptyConforms.
Theorem C04_roundtrip_empty : forall E, ExtLaws E -> forall sc tn md m j,
  str_eqb tn ts_name = false -> is_wkt_other tn = false ->
  find_message (all_messages sc) tn = Some md -> owner_of sc md = Own FtEmpty ->
  nodup_str (map jn (m_fields md)) = true ->
  epoch_null_free md m = true ->
  wt sc (KMessage tn) (FM m) = true ->
  encode E sc tn m = ROk j -> decode E sc tn j = ROk (norm sc tn m).
Proof. exact EmptyFacts.empty_roundtrip. Qed.
Print Assumptions C04_roundtrip_empty.
(* schema-level side condition: no empty_behavior = NULL field is a Timestamp *)
Theorem C04_roundtrip_empty_schema : forall E, ExtLaws E -> forall sc tn md m j,
  str_eqb tn ts_name = false -> is_wkt_other tn = false ->
  find_message (all_messages sc) tn = Some md -> owner_of sc md = Own FtEmpty ->
  nodup_str (map jn (m_fields md)) = true ->
  null_not_ts md = true ->
  wt sc (KMessage tn) (FM m) = true ->
  encode E sc tn m = ROk j -> decode E sc tn j = ROk (norm sc tn m).
Proof. exact EmptyFacts.empty_roundtrip_schema. Qed.
Print Assumptions C04_roundtrip_empty_schema.

(* norm is idempotent — for every message type, whatever codec it owns, and every value *)
Theorem C04_norm_idempotent : forall sc tn m, norm sc tn (norm sc tn m) = norm sc tn m.
Proof. exact EmptyFacts.norm_idempotent. Qed.
Print Assumptions C04_norm_idempotent.
Theorem C04_norm_idempotent_simple : forall sc tn md m,
  lookup_message sc tn = Some md ->
  (owner_of sc md = OwnNone \/ owner_of sc md = Own FtEmpty \/ owner_of sc md = Own FtTs \/
   owner_of sc md = Own FtNullable \/ owner_of sc md = Own FtInt64 \/ owner_of sc md = Own FtBytes) ->
  norm sc tn (norm sc tn m) = norm sc tn m.
Proof. exact EmptyFacts.norm_idempotent_simple. Qed.
Print Assumptions C04_norm_idempotent_simple.

(* norm is the identity on a message type without lossy annotations: no UNIX_SECONDS / UNIX_MILLIS / DATE
   timestamp_format field, no empty_behavior = OMIT field, no map whose values are unwrap wrappers *)
Theorem C04_norm_id_without_lossy_annotations : forall sc tn m,
  (forall md, lookup_message sc tn = Some md -> lossy_free sc md = true) ->
  norm sc tn m = m.
Proof. exact EmptyFacts.norm_id_without_lossy. Qed.
Print Assumptions C04_norm_id_without_lossy_annotations.

(* refutation: without the side condition the round trip fails (epoch Timestamp under empty_behavior = NULL) *)
Example C04_roundtrip_empty_needs_epoch_null_free :
  let md := tsnull_md in
    let m := [(s "at", FM []); (s "id", vstr "x")] in
    str_eqb (q "TsNull") ts_name = false /\ is_wkt_other (q "TsNull") = false /\
    find_message (all_messages ebs) (q "TsNull") = Some md /\ owner_of ebs md = Own FtEmpty /\
    buildable ebs FtEmpty md = true /\ nodup_str (map jn (m_fields md)) = true /\
    wt ebs (KMessage (q "TsNull")) (FM m) = true /\
    epoch_null_free md m = false /\ null_not_ts md = false /\
    encode Ex ebs (q "TsNull") m = ROk (JObj [(s "at", JNull); (s "id", JStr (s "x"))]) /\
    to_json Ex ebs (q "TsNull") m = ROk (JObj [(s "at", JNull); (s "id", JStr (s "x"))]) /\
    decode Ex ebs (q "TsNull") (JObj [(s "at", JNull); (s "id", JStr (s "x"))]) = RErr (s "invalid timestamp").
Proof. exact EmptyConforms.empty_roundtrip_needs_epoch_null_free. Qed.
Print Assumptions C04_roundtrip_empty_needs_epoch_null_free.
Example C04_norm_id_needs_no_unwrap_values :
  let md := book_md in
    let m := [(s "pages", FMap [(VStr (s "k"), FM [(s "items", FL [vstr "a"]); (s "total", vint 3)])])] in
    lookup_message ebs (q "Book") = Some md /\
    forallb (fun f => match tsfmt_of f with None => negb (is_omitf f) | _ => false end) (m_fields md) = true /\
    lossy_free ebs md = false /\
    wt ebs (KMessage (q "Book")) (FM m) = true /\
    norm ebs (q "Book") m = [(s "pages", FMap [(VStr (s "k"), FM [(s "items", FL [vstr "a"])])])].
Proof. exact EmptyConforms.norm_id_needs_no_unwrap_values. Qed.

(* non-vacuity: PRESERVE, NULL and OMIT side by side; every child empty, every annotated child absent *)
Example C04_empty_nonvacuous :
  let md := emp3_md in
    str_eqb (q "Emp3") ts_name = false /\ is_wkt_other (q "Emp3") = false /\
    find_message (all_messages ebs) (q "Emp3") = Some md /\ owner_of ebs md = Own FtEmpty /\
    buildable ebs FtEmpty md = true /\ nodup_str (map jn (m_fields md)) = true /\
    null_not_ts md = true /\ empplain_msg md = true /\
    (let m := [(s "keep_it", FM []); (s "nul_it", FM []); (s "omit_it", FM []); (s "omit_at", FM []); (s "id", vstr "x")] in
     wt ebs (KMessage (q "Emp3")) (FM m) = true /\ epoch_null_free md m = true /\
     forallb (fun e => match find_field (m_fields md) (fst e) with
                       | Some f => plain_in ebs (f_kind f) (snd e) | None => false end) m = true /\
     encode Ex ebs (q "Emp3") m = ROk (JObj [(s "keepIt", JObj []); (s "nulIt", JNull); (s "id", JStr (s "x"))]) /\
     to_json Ex ebs (q "Emp3") m = ROk (JObj [(s "keepIt", JObj []); (s "nulIt", JNull); (s "id", JStr (s "x"))]) /\
     decode Ex ebs (q "Emp3") (JObj [(s "keepIt", JObj []); (s "nulIt", JNull); (s "id", JStr (s "x"))])
       = ROk [(s "keep_it", FM []); (s "nul_it", FM []); (s "id", vstr "x")] /\
     norm ebs (q "Emp3") m = [(s "keep_it", FM []); (s "nul_it", FM []); (s "id", vstr "x")]) /\
    (let m := [(s "id", vstr "x")] in
     wt ebs (KMessage (q "Emp3")) (FM m) = true /\
     encode Ex ebs (q "Emp3") m = ROk (JObj [(s "id", JStr (s "x"))]) /\
     decode Ex ebs (q "Emp3") (JObj [(s "id", JStr (s "x"))]) = ROk m).
Proof. exact EmptyConforms.empty_nonvacuous. Qed.
(* every child non-empty: nothing is lost *)
Example C04_empty_nonvacuous_nonempty :
  let md := emp3_md in
  let m := [(s "keep_it", FM [(s "a", vstr "k")]); (s "nul_it", FM [(s "n", vint 7)]); (s "omit_it", FM [(s "a", vstr "o")]);
            (s "omit_at", tsv 5 0); (s "plain_leaf", FM [])] in
  let j := JObj [(s "keepIt", JObj [(s "a", JStr (s "k"))]); (s "nulIt", JObj [(s "n", JStr (s "7"))]);
                 (s "omitIt", JObj [(s "a", JStr (s "o"))]); (s "omitAt", JStr (s "1970-01-01T00:00:05Z"));
                 (s "plainLeaf", JObj [])] in
  wt ebs (KMessage (q "Emp3")) (FM m) = true /\ epoch_null_free md m = true /\
  forallb (fun e => match find_field (m_fields md) (fst e) with
                    | Some f => plain_in ebs (f_kind f) (snd e) | None => false end) m = true /\
  norm ebs (q "Emp3") m = m /\
  encode Ex ebs (q "Emp3") m = ROk j /\ to_json Ex ebs (q "Emp3") m = ROk j /\ decode Ex ebs (q "Emp3") j = ROk m.
Proof. exact EmptyConforms.empty_nonvacuous_nonempty. Qed.
(* on the shared witness schema (value from CodecCases / CodecExamples [xs]) *)
Example C04_empty_nonvacuous_xs :
  let md := emp_md in
    find_message (all_messages xs) (q "Emp") = Some md /\ owner_of xs md = Own FtEmpty /\
    buildable xs FtEmpty md = true /\ nodup_str (map jn (m_fields md)) = true /\
    null_not_ts md = true /\ empplain_msg md = true /\
    (let m := [(s "nul_it", FM []); (s "omit", FM []); (s "id", vstr "x")] in
     wt xs (KMessage (q "Emp")) (FM m) = true /\
     encode Ex xs (q "Emp") m = ROk (JObj [(s "nulIt", JNull); (s "id", JStr (s "x"))]) /\
     decode Ex xs (q "Emp") (JObj [(s "nulIt", JNull); (s "id", JStr (s "x"))]) = ROk [(s "nul_it", FM []); (s "id", vstr "x")] /\
     norm xs (q "Emp") m = [(s "nul_it", FM []); (s "id", vstr "x")]).
Proof. exact EmptyConforms.empty_nonvacuous_xs. Qed.
Example C04_norm_id_nonvacuous :
  (forall md, lookup_message xs (q "Nums") = Some md -> lossy_free xs md = true) /\
  (forall md, lookup_message xs (q "Plain") = Some md -> lossy_free xs md = true) /\
  (forall md, lookup_message ebs (q "TsNull") = Some md -> lossy_free ebs md = true) /\
  owner_of ebs tsnull_md = Own FtEmpty.
Proof. exact EmptyConforms.norm_id_nonvacuous. Qed.

(* ---- appended by P7_compose ---- *)

(* ONE round-trip theorem for every message type whose codec is none or exactly one of the five field codecs
   (nullable, int64 NUMBER, bytes_encoding, timestamp_format, empty_behavior) — C04_roundtrip_full restricted by
   the computable [field_codec_owner] and nothing else: distinct JSON names, "the emitted codec compiles",
   "tn is not a well-known type" and "no NULL Timestamp holds the epoch" are derived in proofs/CodecCompose.v
   from wt, encode = ROk and defects_C04 = [] *)
From SebufProofs Require CodecCompose.
Theorem C04_roundtrip_field_codecs : forall E, ExtLaws E -> forall sc tn m j,
  CodecCompose.field_codec_owner sc tn = true ->
  wt sc (KMessage tn) (FM m) = true ->
  defects_C04 sc tn m = [] ->
  encode E sc tn m = ROk j -> decode E sc tn j = ROk (norm sc tn m).
Proof. exact CodecCompose.C04_roundtrip_field_codecs. Qed.
Print Assumptions C04_roundtrip_field_codecs.

(* non-vacuity on the shared schema xs: one message type per field codec and one without a codec; every
   hypothesis holds, the annotated field is populated (absent for nullable), the conclusion is evaluated *)
Example C04_field_codecs_nonvacuous :
  CodecCompose.c04_case_ok xs (q "Nums") (Own FtInt64)
    [(s "big", vint 9007199254740993); (s "name", vstr "n")]
    (JObj [(s "big", JNum 9007199254740993); (s "name", JStr (s "n"))])
    [(s "big", vint 9007199254740993); (s "name", vstr "n")] /\
  CodecCompose.c04_case_ok xs (q "Nul") (Own FtNullable)
    [(s "id", vstr "x")]
    (JObj [(s "id", JStr (s "x")); (s "nick", JNull)])
    [(s "id", vstr "x")] /\
  CodecCompose.c04_case_ok xs (q "Nul") (Own FtNullable)
    [(s "nick", vstr "k"); (s "id", vstr "x")]
    (JObj [(s "nick", JStr (s "k")); (s "id", JStr (s "x"))])
    [(s "nick", vstr "k"); (s "id", vstr "x")] /\
  CodecCompose.c04_case_ok xs (q "Emp") (Own FtEmpty)
    [(s "nul_it", FM []); (s "omit", FM []); (s "id", vstr "x")]
    (JObj [(s "nulIt", JNull); (s "id", JStr (s "x"))])
    [(s "nul_it", FM []); (s "id", vstr "x")] /\
  CodecCompose.c04_case_ok xs (q "Times") (Own FtTs)
    [(s "secs", tsv 5 123456789); (s "day", tsv 90000 1); (s "id", vstr "x")]
    (JObj [(s "secs", JNum 5); (s "day", JStr (s "1970-01-02")); (s "id", JStr (s "x"))])
    [(s "secs", tsv 5 0); (s "day", tsv 86400 0); (s "id", vstr "x")] /\
  CodecCompose.c04_case_ok xs (q "Blob") (Own FtBytes)
    [(s "h", FS (VBytes [ch 105; ch 183])); (s "id", vstr "x")]
    (JObj [(s "h", JStr (s "69b7")); (s "id", JStr (s "x"))])
    [(s "h", FS (VBytes [ch 105; ch 183])); (s "id", vstr "x")] /\
  CodecCompose.c04_case_ok xs (q "Leaf") OwnNone
    [(s "a", vstr "x"); (s "n", vint 3)]
    (JObj [(s "a", JStr (s "x")); (s "n", JStr (s "3"))])
    [(s "a", vstr "x"); (s "n", vint 3)].
Proof. exact CodecCompose.roundtrip_field_codecs_nonvacuous. Qed.
Print Assumptions C04_field_codecs_nonvacuous.

(* defects_C04 = [] cannot be dropped: every other hypothesis holds and the round trip fails
   (empty_behavior = NULL on a Timestamp field holding the epoch) *)
Example C04_roundtrip_field_codecs_needs_no_defects :
  let m := [(s "at", FM []); (s "id", vstr "x")] in
  CodecCompose.field_codec_owner ebs (q "TsNull") = true /\
  wt ebs (KMessage (q "TsNull")) (FM m) = true /\
  defects_C04 ebs (q "TsNull") m = [D4EmptyNullEpochTs] /\
  encode Ex ebs (q "TsNull") m = ROk (JObj [(s "at", JNull); (s "id", JStr (s "x"))]) /\
  decode Ex ebs (q "TsNull") (JObj [(s "at", JNull); (s "id", JStr (s "x"))]) = RErr (s "invalid timestamp").
Proof. exact CodecCompose.roundtrip_field_codecs_needs_no_defects. Qed.

(* what field_codec_owner accepts *)
Example C04_field_codec_owner_examples :
  CodecCompose.field_codec_owner xs (q "Person") = false /\ CodecCompose.field_codec_owner xs (q "Event") = false /\
  CodecCompose.field_codec_owner xs (q "Series") = false /\ CodecCompose.field_codec_owner xs (q "Strs") = false /\
  CodecCompose.field_codec_owner xs (s "x.v1.Missing") = false /\ CodecCompose.field_codec_owner xs ts_name = true.
Proof. exact CodecCompose.field_codec_owner_examples. Qed.

(* ---- C04 for the root-unwrap codec (internal/httpgen/unwrap.go:783-982) in general: a message whose only field
   carries (sebuf.http.unwrap) is written as the bare array / object of that field and read back from it, for
   every schema and every well-typed value: root list of messages, root map<string, message>, root
   map<string, Wrapper> (the combined form; [norm] keeps only the unwrap field of a wrapper), root list / map of
   scalars (through encoding/json; a nil scalar slice or map is written as null and null is read as "nothing
   set").  The schema side condition [unwrap_root_dom] only concerns enums that own a MarshalJSON. *)
From SebufProofs Require UnwrapRootFacts UnwrapRootConforms UnwrapRootExamples.
Theorem C04_roundtrip_unwrap_root : forall E, ExtLaws E -> forall sc tn md m j,
  str_eqb tn ts_name = false -> is_wkt_other tn = false ->
  find_message (all_messages sc) tn = Some md -> owner_of sc md = Own FtUnwrapRoot ->
  UnwrapRootFacts.unwrap_root_dom sc md = true ->
  wt sc (KMessage tn) (FM m) = true -> defects_C04 sc tn m = [] ->
  encode E sc tn m = ROk j -> decode E sc tn j = ROk (norm sc tn m).
Proof. exact UnwrapRootFacts.unwrap_root_roundtrip. Qed.
Print Assumptions C04_roundtrip_unwrap_root.

(* the shapes whose elements are messages: no side condition, no defect hypothesis *)
Theorem C04_roundtrip_unwrap_root_messages : forall E, ExtLaws E -> forall sc tn md m j,
  str_eqb tn ts_name = false -> is_wkt_other tn = false ->
  find_message (all_messages sc) tn = Some md -> owner_of sc md = Own FtUnwrapRoot ->
  UnwrapRootFacts.msg_elems sc md = true ->
  wt sc (KMessage tn) (FM m) = true ->
  encode E sc tn m = ROk j -> decode E sc tn j = ROk (norm sc tn m).
Proof. exact UnwrapRootFacts.unwrap_root_roundtrip_messages. Qed.
Print Assumptions C04_roundtrip_unwrap_root_messages.

(* non-vacuity on the shared witness schema [xs]: BarList (root list of messages), Strs (root list of strings);
   [root_hyps] bundles every hypothesis of the theorem (and of C05_conforms_unwrap_root_partial) *)
Example C04_unwrap_root_nonvacuous_xs :
  (let m := [(s "bars", FL [UnwrapRootExamples.leaf1; FM []])] in
   let j := JArr [UnwrapRootExamples.leaf1_json; JObj []] in
   UnwrapRootExamples.root_hyps xs (q "BarList") m /\
   encode Ex xs (q "BarList") m = ROk j /\ to_json Ex xs (q "BarList") m = ROk j /\
   decode Ex xs (q "BarList") j = ROk m /\ norm xs (q "BarList") m = m) /\
  (let m := [(s "vals", FL [vstr "a"; vstr "b"])] in
   let j := JArr [JStr (s "a"); JStr (s "b")] in
   UnwrapRootExamples.root_hyps xs (q "Strs") m /\
   encode Ex xs (q "Strs") m = ROk j /\ to_json Ex xs (q "Strs") m = ROk j /\
   decode Ex xs (q "Strs") j = ROk m /\ norm xs (q "Strs") m = m) /\
  encode Ex xs (q "BarList") [] = ROk (JArr []) /\ decode Ex xs (q "BarList") (JArr []) = ROk [] /\
  encode Ex xs (q "Strs") [] = ROk JNull /\ decode Ex xs (q "Strs") JNull = ROk [].
Proof. exact UnwrapRootExamples.unwrap_root_nonvacuous_xs. Qed.

(* every other shape, on the schema [uws] of proofs/UnwrapRootExamples.v: root map of messages, the combined form
   (the wrapper's other field is lost: norm), root map of strings, combined with string items, root list of doubles *)
Example C04_unwrap_root_nonvacuous_shapes :
  (let m := [(s "by_id", FMap [(VStr (s "a"), UnwrapRootExamples.leaf1); (VStr (s "b"), FM [])])] in
   let j := JObj [(s "a", UnwrapRootExamples.leaf1_json); (s "b", JObj [])] in
   UnwrapRootExamples.root_hyps UnwrapRootExamples.uws (q "LeafMap") m /\
   encode Ex UnwrapRootExamples.uws (q "LeafMap") m = ROk j /\ to_json Ex UnwrapRootExamples.uws (q "LeafMap") m = ROk j /\
   decode Ex UnwrapRootExamples.uws (q "LeafMap") j = ROk m /\ norm UnwrapRootExamples.uws (q "LeafMap") m = m) /\
  (let m := [(s "pages", FMap [(VStr (s "p1"), FM [(s "items", FL [UnwrapRootExamples.leaf1]); (s "total", vint 3)]); (VStr (s "p2"), FM [])])] in
   let m' := [(s "pages", FMap [(VStr (s "p1"), FM [(s "items", FL [UnwrapRootExamples.leaf1])]); (VStr (s "p2"), FM [])])] in
   let j := JObj [(s "p1", JArr [UnwrapRootExamples.leaf1_json]); (s "p2", JArr [])] in
   UnwrapRootExamples.root_hyps UnwrapRootExamples.uws (q "Book") m /\
   encode Ex UnwrapRootExamples.uws (q "Book") m = ROk j /\ to_json Ex UnwrapRootExamples.uws (q "Book") m = ROk j /\
   decode Ex UnwrapRootExamples.uws (q "Book") j = ROk m' /\ norm UnwrapRootExamples.uws (q "Book") m = m') /\
  (let m := [(s "m", FMap [(VStr (s "a"), vstr "x")])] in
   let j := JObj [(s "a", JStr (s "x"))] in
   UnwrapRootExamples.root_hyps UnwrapRootExamples.uws (q "StrMap") m /\
   encode Ex UnwrapRootExamples.uws (q "StrMap") m = ROk j /\ to_json Ex UnwrapRootExamples.uws (q "StrMap") m = ROk j /\
   decode Ex UnwrapRootExamples.uws (q "StrMap") j = ROk m) /\
  (let m := [(s "by_k", FMap [(VStr (s "a"), FM [(s "vals", FL [vstr "x"]); (s "total", vint 2)])])] in
   let m' := [(s "by_k", FMap [(VStr (s "a"), FM [(s "vals", FL [vstr "x"])])])] in
   let j := JObj [(s "a", JArr [JStr (s "x")])] in
   UnwrapRootExamples.root_hyps UnwrapRootExamples.uws (q "TagCombo") m /\
   encode Ex UnwrapRootExamples.uws (q "TagCombo") m = ROk j /\ to_json Ex UnwrapRootExamples.uws (q "TagCombo") m = ROk j /\
   decode Ex UnwrapRootExamples.uws (q "TagCombo") j = ROk m' /\ norm UnwrapRootExamples.uws (q "TagCombo") m = m') /\
  (let m := [(s "rs", FL [FS (VFloat 4609434218613702656)])] in
   let j := JArr [jflt 4609434218613702656] in
   UnwrapRootExamples.root_hyps UnwrapRootExamples.uws (q "Ratios") m /\
   encode Ex UnwrapRootExamples.uws (q "Ratios") m = ROk j /\ to_json Ex UnwrapRootExamples.uws (q "Ratios") m = ROk j /\
   decode Ex UnwrapRootExamples.uws (q "Ratios") j = ROk m).
Proof. exact UnwrapRootExamples.unwrap_root_nonvacuous_shapes. Qed.

Example C04_unwrap_root_messages_nonvacuous :
  (exists md, find_message (all_messages xs) (q "BarList") = Some md /\ owner_of xs md = Own FtUnwrapRoot /\ UnwrapRootFacts.msg_elems xs md = true) /\
  (exists md, find_message (all_messages UnwrapRootExamples.uws) (q "LeafMap") = Some md /\ owner_of UnwrapRootExamples.uws md = Own FtUnwrapRoot /\ UnwrapRootFacts.msg_elems UnwrapRootExamples.uws md = true) /\
  (exists md, find_message (all_messages UnwrapRootExamples.uws) (q "Book") = Some md /\ owner_of UnwrapRootExamples.uws md = Own FtUnwrapRoot /\ UnwrapRootFacts.msg_elems UnwrapRootExamples.uws md = true) /\
  (exists md, find_message (all_messages xs) (q "Strs") = Some md /\ owner_of xs md = Own FtUnwrapRoot /\ UnwrapRootFacts.msg_elems xs md = false).
Proof. exact UnwrapRootExamples.unwrap_root_messages_nonvacuous. Qed.

(* an enum with enum_value texts among the scalar elements *)
Example C04_unwrap_root_nonvacuous_enum :
  let m := [(s "cs", FL [FS (VEnum 1); FS (VEnum 2); FS (VEnum 0)])] in
  let j := JArr [JStr (s "red"); JStr (s "blue"); JStr (s "COLOR_UNSPECIFIED")] in
  (exists md, find_message (all_messages UnwrapRootExamples.uws) (q "Colors") = Some md /\ owner_of UnwrapRootExamples.uws md = Own FtUnwrapRoot /\
              UnwrapRootFacts.unwrap_root_dom UnwrapRootExamples.uws md = true) /\
  wt UnwrapRootExamples.uws (KMessage (q "Colors")) (FM m) = true /\ defects_C04 UnwrapRootExamples.uws (q "Colors") m = [] /\
  encode Ex UnwrapRootExamples.uws (q "Colors") m = ROk j /\ decode Ex UnwrapRootExamples.uws (q "Colors") j = ROk m.
Proof. exact UnwrapRootExamples.unwrap_root_nonvacuous_enum. Qed.

(* refutations: each side condition is needed *)
(* two enum values sharing one enum_value text: DUP_B is read back as DUP_A *)
Example C04_roundtrip_unwrap_root_needs_enum_texts_distinct :
  let m := [(s "ds", FL [FS (VEnum 1)])] in
  (exists md, find_message (all_messages UnwrapRootExamples.uws) (q "Dups") = Some md /\ owner_of UnwrapRootExamples.uws md = Own FtUnwrapRoot /\
              UnwrapRootFacts.unwrap_root_dom UnwrapRootExamples.uws md = false) /\
  wt UnwrapRootExamples.uws (KMessage (q "Dups")) (FM m) = true /\ defects_C04 UnwrapRootExamples.uws (q "Dups") m = [] /\
  encode Ex UnwrapRootExamples.uws (q "Dups") m = ROk (JArr [JStr (s "same")]) /\
  decode Ex UnwrapRootExamples.uws (q "Dups") (JArr [JStr (s "same")]) = ROk [(s "ds", FL [FS (VEnum 0)])] /\
  norm UnwrapRootExamples.uws (q "Dups") m = m.
Proof. exact UnwrapRootExamples.unwrap_root_roundtrip_needs_enum_texts_distinct. Qed.
(* an undefined number of an enum with a MarshalJSON INSIDE a wrapper: defects_C04 = [] (the classifier only looks
   at the root field), yet "99" is not read back *)
Example C04_roundtrip_unwrap_root_needs_no_codec_enum_in_wrapper :
  let m := [(s "by_k", FMap [(VStr (s "a"), FM [(s "cs", FL [FS (VEnum 99)])])])] in
  (exists md, find_message (all_messages UnwrapRootExamples.uws) (q "ColorCombo") = Some md /\ owner_of UnwrapRootExamples.uws md = Own FtUnwrapRoot /\
              UnwrapRootFacts.unwrap_root_dom UnwrapRootExamples.uws md = false) /\
  wt UnwrapRootExamples.uws (KMessage (q "ColorCombo")) (FM m) = true /\ defects_C04 UnwrapRootExamples.uws (q "ColorCombo") m = [] /\
  encode Ex UnwrapRootExamples.uws (q "ColorCombo") m = ROk (JObj [(s "a", JArr [JStr (s "99")])]) /\
  decode Ex UnwrapRootExamples.uws (q "ColorCombo") (JObj [(s "a", JArr [JStr (s "99")])]) = RErr (s "unknown enum value").
Proof. exact UnwrapRootExamples.unwrap_root_roundtrip_needs_no_codec_enum_in_wrapper. Qed.
(* the same at the root is D4EnumCodecUnknown: the hypothesis defects_C04 = [] is needed *)
Example C04_roundtrip_unwrap_root_needs_defect_free :
  let m := [(s "cs", FL [FS (VEnum 99)])] in
  (exists md, find_message (all_messages UnwrapRootExamples.uws) (q "Colors") = Some md /\ owner_of UnwrapRootExamples.uws md = Own FtUnwrapRoot /\
              UnwrapRootFacts.unwrap_root_dom UnwrapRootExamples.uws md = true) /\
  wt UnwrapRootExamples.uws (KMessage (q "Colors")) (FM m) = true /\ defects_C04 UnwrapRootExamples.uws (q "Colors") m = [D4EnumCodecUnknown] /\
  encode Ex UnwrapRootExamples.uws (q "Colors") m = ROk (JArr [JStr (s "99")]) /\
  decode Ex UnwrapRootExamples.uws (q "Colors") (JArr [JStr (s "99")]) = RErr (s "unknown enum value").
Proof. exact UnwrapRootExamples.unwrap_root_roundtrip_needs_defect_free. Qed.

(* ==== P11: the map-value unwrap codec (FtUnwrapMap, internal/httpgen/unwrap.go:356-522) ======================= *)
From SebufProofs Require UnwrapMapFacts.

(* C04 for EVERY message type whose codec is the map-value unwrap one, every schema, every well-typed value,
   in the region defects_C04 = [] (known classes there: -0.0 in a singular sibling; NaN/Inf siblings make
   encode fail).  Derived inside: tn is not a well-known type, distinct JSON names, the emitted code compiles.
   Two computable side conditions, each shown necessary below:
     gj_enums_rt          every enum number handed to encoding/json (sibling enum fields AND the scalar items of a
                          wrapper) is declared and its JSON text names, first, a value with that number;
     reflected_maps_plain a sibling map whose values are messages WITHOUT an unwrap field goes through
                          encoding/json's reflection: its values are un-annotated (no codec-owning message below,
                          no present-but-empty bytes field).
   _partial: the codec-owning values of such a reflected map are the remainder (UnwrapMapFacts.unwrap_map_roundtrip_full). *)
Theorem C04_roundtrip_unwrap_map_partial : forall E, ExtLaws E -> forall sc tn md m j,
  find_message (all_messages sc) tn = Some md -> owner_of sc md = Own FtUnwrapMap ->
  wt sc (KMessage tn) (FM m) = true ->
  defects_C04 sc tn m = [] ->
  UnwrapMapFacts.gj_enums_rt sc md m = true -> UnwrapMapFacts.reflected_maps_plain sc md m = true ->
  encode E sc tn m = ROk j -> decode E sc tn j = ROk (norm sc tn m).
Proof. exact UnwrapMapFacts.unwrap_map_roundtrip. Qed.
Print Assumptions C04_roundtrip_unwrap_map_partial.

(* encoding/json both ways on an un-annotated value of any kind (scalars of every kind, repeated scalars, scalar
   maps, nested structs by reflection, Timestamp as {seconds, nanos}), with the fuel decode supplies *)
Theorem C04_gj_reflect_roundtrip : forall E, ExtLaws E -> forall sc v k j n,
  wt sc k v = true -> UnwrapMapFacts.reflectable sc k v = true ->
  gj_fval E sc k v = ROk j -> (json_size j <= n)%nat -> gj_un E sc (S n) k j = ROk (Some v).
Proof. exact UnwrapMapFacts.gj_reflect_roundtrip. Qed.
Print Assumptions C04_gj_reflect_roundtrip.

(* non-vacuity: ScoreBoard (three unwrap maps: message / string / enum items; siblings of every covered shape;
   fields declared out of number order; the wrappers lose their "note") and Series of the shared schema xs *)
Example C04_unwrap_map_nonvacuous :
  UnwrapMapFacts.um_case_ok UnwrapMapFacts.Eu UnwrapMapFacts.ums (q "ScoreBoard")
    UnwrapMapFacts.board_val UnwrapMapFacts.board_json UnwrapMapFacts.board_back /\
  UnwrapMapFacts.um_case_ok Ex xs (q "Series")
    [(s "by_sym", FMap [(VStr (s "A"), FM [(s "bars", FL [FM [(s "a", vstr "x")]; FM []])])]);
     (s "total_count", vint 4); (s "ratio", FS (VFloat 4609434218613702656))]
    (JObj [(s "bySym", JObj [(s "A", JArr [JObj [(s "a", JStr (s "x"))]; JObj []])]);
           (s "totalCount", JNum 4); (s "ratio", jflt 4609434218613702656)])
    [(s "by_sym", FMap [(VStr (s "A"), FM [(s "bars", FL [FM [(s "a", vstr "x")]; FM []])])]);
     (s "total_count", vint 4); (s "ratio", FS (VFloat 4609434218613702656))].
Proof. exact UnwrapMapFacts.unwrap_map_roundtrip_nonvacuous. Qed.

(* gj_enums_rt is needed, (1): an undefined enum number among the scalar items of a wrapper is written "99" by the
   emitted enum MarshalJSON and refused on the way back; no class of defects_C04 fires (enum-codec-unknown-number
   looks at sibling fields only) *)
Example C04_unwrap_map_needs_known_wrapper_enums :
  UnwrapMapFacts.um_case_but UnwrapMapFacts.Eu UnwrapMapFacts.ums (q "ScoreBoard")
    [(s "palette", FMap [(VStr (s "k"), FM [(s "cs", FL [FS (VEnum 1); FS (VEnum 99)])])])]
    false true []
    (JObj [(s "palette", JObj [(s "k", JArr [JStr (s "red"); JStr (s "99")])])])
    (RErr (s "unknown enum value")).
Proof. exact UnwrapMapFacts.unwrap_map_roundtrip_needs_known_wrapper_enums. Qed.

(* gj_enums_rt is needed, (2): two enum values with the same custom enum_value text: DUP_B comes back as DUP_A *)
Example C04_unwrap_map_needs_unambiguous_enum_json :
  UnwrapMapFacts.um_case_but UnwrapMapFacts.Eu UnwrapMapFacts.ums (q "DupBoard")
    [(s "d", FS (VEnum 2))]
    false true []
    (JObj [(s "d", JStr (s "same"))])
    (ROk [(s "d", FS (VEnum 1))]) /\
  UnwrapMapFacts.um_case_but UnwrapMapFacts.Eu UnwrapMapFacts.ums (q "DupBoard")
    [(s "by_sym", FMap [(VStr (s "k"), FM [(s "ds", FL [FS (VEnum 2)])])])]
    false true []
    (JObj [(s "bySym", JObj [(s "k", JArr [JStr (s "same")])])])
    (ROk [(s "by_sym", FMap [(VStr (s "k"), FM [(s "ds", FL [FS (VEnum 1)])])])]).
Proof. exact UnwrapMapFacts.unwrap_map_roundtrip_needs_unambiguous_enum_json. Qed.

(* reflected_maps_plain: (1) `json:"b,omitempty"` drops a present-but-empty optional bytes field of a reflected map
   value; its presence is lost (since confirmed on the emitted code and tagged: the class D4ReflectedEmptyOptBytes,
   "reflected-child-empty-optional-bytes-dropped", fires);
   (2) it is still needed: an enum field of a reflected map value whose type carries one custom text on two values
   (DUP_B is written "same" and read back as DUP_A); no class of defects_C04 fires *)
Example C04_unwrap_map_needs_reflected_maps_plain :
  UnwrapMapFacts.um_case_but UnwrapMapFacts.Eu UnwrapMapFacts.ums (q "RefBoard")
    [(s "opts", FMap [(VStr (s "k"), FM [(s "b", FS (VBytes [])); (s "t", vstr "x")])])]
    true false [D4ReflectedEmptyOptBytes]
    (JObj [(s "opts", JObj [(s "k", JObj [(s "t", JStr (s "x"))])])])
    (ROk [(s "opts", FMap [(VStr (s "k"), FM [(s "t", vstr "x")])])]) /\
  UnwrapMapFacts.um_case_but UnwrapMapFacts.Eu UnwrapMapFacts.ums (q "RefBoard")
    [(s "dups", FMap [(VStr (s "k"), FM [(s "d", FS (VEnum 2))])])]
    true false []
    (JObj [(s "dups", JObj [(s "k", JObj [(s "d", JStr (s "same"))])])])
    (ROk [(s "dups", FMap [(VStr (s "k"), FM [(s "d", FS (VEnum 1))])])]).
Proof. exact UnwrapMapFacts.unwrap_map_roundtrip_needs_reflected_maps_plain. Qed.

(* defects_C04 = [] is needed: -0.0 in a singular sibling is dropped by `x.F != 0` *)
Example C04_unwrap_map_needs_no_defects :
  UnwrapMapFacts.um_case_but Ex xs (q "Series")
    [(s "ratio", FS (VFloat 9223372036854775808))]
    true true [D4UnwrapSiblingNegZero]
    (JObj [])
    (ROk []).
Proof. exact UnwrapMapFacts.unwrap_map_roundtrip_needs_no_defects. Qed.

(* ---- appended by P10_oneof ---- *)

(* The discriminated-oneof codec (oneof_discriminator.go), flattened and non-flattened, for ALL schemas and all
   well-typed values: no member set, a scalar member, a message member whose type has no codec of its own.
   - OneofPj.wt1 is ProtoJsonFacts.wt for a message type that declares oneofs (wt rejects every such type): members
     singular, at most one member of each oneof populated; the children are well-typed in the sense of wt.
   - defects_C04 = [] is the classifier's region (D4FlatOneofChild, D4OneofVariantReflect, D4FlatOneofRemarshal,
     D4OneofMemberIsDiscriminator, D4FlatVariantFieldIsVariant, D4FlatVariantBoolMap, D4OneofVariantBoolMap,
     D4OneofVariantFoldClash, D4ReflectedEmptyOptBytes).
   - distinct oneof names: what protoc guarantees.
   - OneofFacts.oneof_keys_ok: the keys of the rendered object (populated fields, discriminators, inlined child fields)
     and the keys the decoder looks up are pairwise distinct.  ValidateOneofDiscriminator checks part of it; it misses
     a variant named like its own discriminator, a flattened child field named like its variant, two oneofs
     sharing a discriminator or inlined names.
   - OneofFacts.disc_values_ok: distinct discriminator values within a oneof (else the emitted switch has a duplicate case).
   - OneofFacts.variant_types_plain: the populated message member's type has no codec of its own and is not Timestamp.
     PARTIAL here: a member whose type owns a codec (the D4FlatOneofRemarshal region, and the non-flattened case where
     the variant's own UnmarshalJSON is given the protojson form) is the sub-case that is not proved; Timestamp members
     and an empty_behavior = NULL child are refuted below although no defect class fires.
   - OneofFacts.variant_no_gap: no multi-word field of a NON-flattened member has a lowerCamel key that folds, for
     encoding/json, onto another field of the Go struct.  (Weakened: the other shapes it used to exclude — empty optional
     bytes, bool-keyed maps, NaN / Infinity inside repeated or map floats — were confirmed on the emitted code and are
     defect classes of defects_C04 now, and so is the folding itself when the other field does not read the value,
     D4OneofVariantFoldClash; the remainder — it does read it — round-trips but is not proved, see
     C04_roundtrip_oneof_no_gap_remainder.) *)
From SebufProofs Require OneofPj OneofFacts OneofExamples.
Theorem C04_roundtrip_oneof_partial : forall E, ExtLaws E -> forall sc tn md m j,
  find_message (all_messages sc) tn = Some md -> owner_of sc md = Own FtOneof ->
  OneofPj.wt1 sc tn m = true ->
  defects_C04 sc tn m = [] ->
  NullableFacts.nodup_str (map o_name (m_oneofs md)) = true ->
  OneofFacts.oneof_keys_ok sc md m = true -> OneofFacts.disc_values_ok md = true ->
  OneofFacts.variant_types_plain sc md m = true -> OneofFacts.variant_no_gap sc md m = true ->
  encode E sc tn m = ROk j -> decode E sc tn j = ROk (norm sc tn m).
Proof. exact OneofFacts.oneof_roundtrip. Qed.
Print Assumptions C04_roundtrip_oneof_partial.

(* wt1 generalises wt (so the theorem also speaks about every value C04_roundtrip_full speaks about) and accepts
   populated oneof members, which wt does not *)
Theorem C04_wt1_generalises_wt : forall sc tn m,
  str_eqb tn ts_name = false -> wt sc (KMessage tn) (FM m) = true -> OneofPj.wt1 sc tn m = true.
Proof. exact OneofPj.wt_wt1. Qed.
Print Assumptions C04_wt1_generalises_wt.
Example C04_wt1_beyond_wt :
  wt xs (KMessage (q "Event")) (FM [(s "eid", vstr "e"); (s "image", FM [(s "url", vstr "u")])]) = false /\
  OneofPj.wt1 xs (q "Event") [(s "eid", vstr "e"); (s "image", FM [(s "url", vstr "u")])] = true /\
  OneofPj.wt1 OneofExamples.os (q "Ev") [(s "text", vstr "a"); (s "ctype", vstr "b")] = false.
Proof. exact OneofExamples.wt1_beyond_wt. Qed.

(* non-vacuity: every hypothesis holds (OneofExamples.oneof_hyps lists them in the order of the statement), the member is
   populated, the conclusion is evaluated.  Shared schema xs: Event (non-flattened), FlatEvent (flattened) *)
Example C04_roundtrip_oneof_nonvacuous_xs :
  OneofExamples.oneof_case_ok xs (q "Event") [(s "eid", vstr "e"); (s "image", FM [(s "url", vstr "u")])]
    (JObj [(s "eid", JStr (s "e")); (s "image", JObj [(s "url", JStr (s "u"))]); (s "ctype", JStr (s "image"))]) /\
  OneofExamples.oneof_case_ok xs (q "FlatEvent") [(s "eid", vstr "e"); (s "wide", FM [])]
    (JObj [(s "eid", JStr (s "e")); (s "ctype", JStr (s "wide"))]).
Proof. exact OneofExamples.oneof_nonvacuous_xs. Qed.
(* schema OneofExamples.os: no member; a scalar member; a non-flattened message member (multi-word field, repeated double);
   a flattened message member (int64, repeated, map, double inlined); two configured oneofs at once *)
Example C04_roundtrip_oneof_nonvacuous_os :
  OneofExamples.oneof_case_ok OneofExamples.os (q "Ev") [(s "eid", vstr "e")] (JObj [(s "eid", JStr (s "e"))]) /\
  OneofExamples.oneof_case_ok OneofExamples.os (q "Ev") [(s "eid", vstr "e"); (s "text", vstr "hi")]
    (JObj [(s "eid", JStr (s "e")); (s "text", JStr (s "hi")); (s "ctype", JStr (s "text"))]) /\
  OneofExamples.oneof_case_ok OneofExamples.os (q "Ev")
    [(s "eid", vstr "e"); (s "note", FM [(s "body_text", vstr "b"); (s "w", vint 3); (s "fs", FL [FS (VFloat 4609434218613702656)])])]
    (JObj [(s "eid", JStr (s "e"));
           (s "note", JObj [(s "bodyText", JStr (s "b")); (s "w", JNum 3); (s "fs", JArr [jflt 4609434218613702656])]);
           (s "ctype", JStr (s "note"))]) /\
  OneofExamples.oneof_case_ok OneofExamples.os (q "Fl") [(s "eid", vstr "e"); (s "pic", OneofExamples.picv)]
    (JObj ([(s "eid", JStr (s "e")); (s "ctype", JStr (s "pic"))] ++ OneofExamples.picj)) /\
  OneofExamples.oneof_case_ok OneofExamples.os (q "Two")
    [(s "eid", vstr "e"); (s "pic", OneofExamples.picv); (s "note", FM [(s "w", vint 3)])]
    (JObj ([(s "eid", JStr (s "e")); (s "note", JObj [(s "w", JNum 3)]); (s "akind", JStr (s "pic"))] ++ OneofExamples.picj ++
           [(s "bkind", JStr (s "note"))])).
Proof. exact OneofExamples.oneof_nonvacuous_os. Qed.
Print Assumptions C04_roundtrip_oneof_nonvacuous_os.

(* every side condition is needed: all the other hypotheses hold (oneof_case_needs n: all but the n-th) and the round trip
   fails.  4 = oneof_keys_ok *)
Example C04_roundtrip_oneof_needs_keys_ok :
  defects_C04 OneofExamples.os (q "Ev") [(s "eid", vstr "e"); (s "ctype", vstr "x")] = [D4OneofMemberIsDiscriminator] /\
  OneofExamples.oneof_case_needs 4 OneofExamples.os (q "Dup")
    [(s "eid", vstr "e"); (s "pic", FM [(s "url", vstr "u")]); (s "leaf", FM [(s "a", vstr "x")])] /\
  (* (since confirmed on the emitted code and tagged: defect class D4FlatVariantFieldIsVariant) *)
  defects_C04 OneofExamples.os (q "Fl") [(s "eid", vstr "e"); (s "self", FM [(s "self", vstr "x")])] = [D4FlatVariantFieldIsVariant].
Proof. exact OneofExamples.oneof_needs_keys_ok. Qed.
(* the generators' own validation accepts the message types of these witnesses *)
Example C04_roundtrip_oneof_validator_accepts :
  OneofExamples.validator_accepts OneofExamples.os (q "Ev") = true /\ OneofExamples.validator_accepts OneofExamples.os (q "Fl") = true /\
  OneofExamples.validator_accepts OneofExamples.os (q "Dup") = true /\ OneofExamples.validator_accepts OneofExamples.os (q "Dv") = true /\
  OneofExamples.validator_accepts OneofExamples.os (q "Two") = true.
Proof. exact OneofExamples.oneof_validator_accepts. Qed.
(* 5 = disc_values_ok *)
Example C04_roundtrip_oneof_needs_disc_values :
  OneofExamples.oneof_case_needs 5 OneofExamples.os (q "Dv") [(s "pic", FM [(s "url", vstr "u")])].
Proof. exact OneofExamples.oneof_needs_disc_values. Qed.
(* 6 = variant_types_plain: Timestamp member (non-flattened, flattened), empty_behavior = NULL child; no defect class fires *)
Example C04_roundtrip_oneof_needs_types_plain :
  OneofExamples.oneof_case_needs 6 OneofExamples.os (q "Ev") [(s "eid", vstr "e"); (s "at", FM [])] /\
  OneofExamples.oneof_case_needs 6 OneofExamples.os (q "Fl") [(s "eid", vstr "e"); (s "at", FM [(s "seconds", vint 5)])] /\
  OneofExamples.oneof_case_needs 6 OneofExamples.os (q "Fl") [(s "eid", vstr "e"); (s "ec", FM [(s "nul_it", FM [])])].
Proof. exact OneofExamples.oneof_needs_types_plain. Qed.
(* 7 = variant_no_gap.  Every shape the condition was introduced for (empty optional bytes / bool-keyed map in a flattened
   member; NaN in a repeated double / bool-keyed map / a multi-word key folding onto a field of another type in a
   non-flattened one) was confirmed on the emitted code and is a defect class now — D4ReflectedEmptyOptBytes,
   D4FlatVariantBoolMap, D4OneofVariantReflect, D4OneofVariantBoolMap, D4OneofVariantFoldClash: the classifier fires on each
   and the round trip fails.  What the (weakened) condition still excludes is C04_roundtrip_oneof_no_gap_remainder below *)
Example C04_roundtrip_oneof_needs_no_gap :
  defects_C04 OneofExamples.os (q "Fl") [(s "eid", vstr "e"); (s "pic", FM [(s "ob", FS (VBytes []))])] = [D4ReflectedEmptyOptBytes] /\
  rt_holds Ex OneofExamples.os (q "Fl") [(s "eid", vstr "e"); (s "pic", FM [(s "ob", FS (VBytes []))])] = false /\
  defects_C04 OneofExamples.os (q "Fl") [(s "eid", vstr "e"); (s "pic", FM [(s "bm", FMap [(VBool true, vstr "x")])])] = [D4FlatVariantBoolMap] /\
  defects_C04 OneofExamples.os (q "Ev")
    [(s "eid", vstr "e"); (s "note", FM [(s "fs", FL [FS (VFloat 9221120237041090561)])])] = [D4OneofVariantReflect] /\
  rt_holds Ex OneofExamples.os (q "Ev") [(s "eid", vstr "e"); (s "note", FM [(s "fs", FL [FS (VFloat 9221120237041090561)])])] = false /\
  defects_C04 OneofExamples.os (q "Ev")
    [(s "eid", vstr "e"); (s "note", FM [(s "bm", FMap [(VBool true, vstr "x")])])] = [D4OneofVariantBoolMap] /\
  rt_holds Ex OneofExamples.os (q "Ev") [(s "eid", vstr "e"); (s "note", FM [(s "bm", FMap [(VBool true, vstr "x")])])] = false /\
  defects_C04 OneofExamples.os (q "Ev") [(s "eid", vstr "e"); (s "fo", FM [(s "alt_text", vstr "x")])] = [D4OneofVariantFoldClash] /\
  rt_holds Ex OneofExamples.os (q "Ev") [(s "eid", vstr "e"); (s "fo", FM [(s "alt_text", vstr "x")])] = false.
Proof. exact OneofExamples.oneof_needs_no_gap. Qed.
(* the remainder of variant_no_gap: the lowerCamel key folds onto a field that reads the value (two strings).  All the other
   hypotheses hold, no class fires, and the round trip HOLDS: the condition is a limit of the proof here, not a defect *)
Example C04_roundtrip_oneof_no_gap_remainder :
  let m := [(s "fo", FM [(s "foo_bar", vstr "."); (s "foobar", vstr "..")])] in
  OneofExamples.oneof_hyps OneofExamples.fs (q "NestG") m = map (fun i => negb (Nat.eqb i 7)) (seq 0 8) /\
  rt_holds Ex OneofExamples.fs (q "NestG") m = true.
Proof. exact OneofExamples.oneof_no_gap_remainder. Qed.
(* 2 = defects_C04 = [] *)
Example C04_roundtrip_oneof_needs_no_defects :
  OneofExamples.oneof_case_needs 2 xs (q "Event") [(s "image", FM [(s "size", vint 7)])] /\
  OneofExamples.oneof_case_needs 2 xs (q "FlatEvent") [(s "eid", vstr "e"); (s "wide", FM [(s "alt_text", vstr "a")])].
Proof. exact OneofExamples.oneof_needs_no_defects. Qed.

(* ---- appended by P12_repair ---- *)

(* One refutation per defect class the side conditions of C04_roundtrip_oneof_partial / C04_roundtrip_unwrap_map_partial
   exposed (each confirmed on the emitted code, catalogue packages cxoneofdisc / cxoneofkeys / cxoneofgaps): the class fires
   alone, MarshalJSON answers, UnmarshalJSON does not give the value back. *)
Theorem C04_refuted_oneof_member_is_discriminator :
  OneofExamples.refuted4_on OneofExamples.os D4OneofMemberIsDiscriminator (q "Ev") [(s "eid", vstr "e"); (s "ctype", vstr "x")].
Proof. exact OneofExamples.refuted_oneof_member_is_discriminator. Qed.
Print Assumptions C04_refuted_oneof_member_is_discriminator.
Theorem C04_refuted_flat_variant_field_is_variant :
  OneofExamples.refuted4_on OneofExamples.os D4FlatVariantFieldIsVariant (q "Fl") [(s "eid", vstr "e"); (s "self", FM [(s "self", vstr "x")])].
Proof. exact OneofExamples.refuted_flat_variant_field_is_variant. Qed.
Print Assumptions C04_refuted_flat_variant_field_is_variant.
Theorem C04_refuted_flat_variant_bool_map :
  OneofExamples.refuted4_on OneofExamples.os D4FlatVariantBoolMap (q "Fl")
    [(s "eid", vstr "e"); (s "pic", FM [(s "bm", FMap [(VBool true, vstr "x")])])].
Proof. exact OneofExamples.refuted_flat_variant_bool_map. Qed.
Print Assumptions C04_refuted_flat_variant_bool_map.
Theorem C04_refuted_oneof_variant_bool_map :
  OneofExamples.refuted4_on OneofExamples.os D4OneofVariantBoolMap (q "Ev")
    [(s "eid", vstr "e"); (s "note", FM [(s "bm", FMap [(VBool true, vstr "x")])])].
Proof. exact OneofExamples.refuted_oneof_variant_bool_map. Qed.
Print Assumptions C04_refuted_oneof_variant_bool_map.
Theorem C04_refuted_reflected_empty_opt_bytes :
  OneofExamples.refuted4_on OneofExamples.os D4ReflectedEmptyOptBytes (q "Fl") [(s "eid", vstr "e"); (s "pic", FM [(s "ob", FS (VBytes []))])].
Proof. exact OneofExamples.refuted_reflected_empty_opt_bytes. Qed.
Print Assumptions C04_refuted_reflected_empty_opt_bytes.
Theorem C04_refuted_oneof_variant_fold_clash :
  OneofExamples.refuted4_on OneofExamples.os D4OneofVariantFoldClash (q "Ev") [(s "eid", vstr "e"); (s "fo", FM [(s "alt_text", vstr "x")])].
Proof. exact OneofExamples.refuted_oneof_variant_fold_clash. Qed.
Print Assumptions C04_refuted_oneof_variant_fold_clash.
(* D4OneofVariantReflect also covers NaN / Infinity as an ELEMENT of a repeated float field or a VALUE of a map *)
Theorem C04_refuted_oneof_variant_reflect_nonfinite_element :
  OneofExamples.refuted4_on OneofExamples.os D4OneofVariantReflect (q "Ev")
    [(s "eid", vstr "e"); (s "note", FM [(s "fs", FL [FS (VFloat 9221120237041090561)])])].
Proof. exact OneofExamples.refuted_oneof_variant_reflect_nonfinite_element. Qed.
Print Assumptions C04_refuted_oneof_variant_reflect_nonfinite_element.

(* The decoder model on contract-form input, two corners of encoding/json (both observed on the emitted code):
   - two keys of one object that address the same struct field (an exact and a case-folded match): the field is assigned
     once per key in document order — and the flattened decoder's json.Marshal(variantMap) puts the keys in byte order —
     so the later key wins and the other field's value is silently lost;
   - map[bool]T is no target for json.Unmarshal: a bool-keyed map inside a variant is refused, flattened or not. *)
Example C04_flat_decode_fold_clash :
  decode Ex OneofExamples.fs (q "FlatG") (JObj [(s "fooBar", JStr (s ".")); (s "foobar", JStr (s "..")); (s "kind", JStr (s "fo"))])
    = ROk [(s "fo", FM [(s "foobar", vstr "..")])] /\
  decode Ex OneofExamples.fs (q "FlatG") (JObj [(s "foobar", JStr (s "..")); (s "kind", JStr (s "fo")); (s "fooBar", JStr (s "."))])
    = ROk [(s "fo", FM [(s "foobar", vstr "..")])] /\
  decode Ex OneofExamples.fs (q "NestG")
    (JObj [(s "fo", JObj [(s "fooBar", JStr (s ".")); (s "foobar", JStr (s ".."))]); (s "kind", JStr (s "fo"))])
    = ROk [(s "fo", FM [(s "foo_bar", vstr "."); (s "foobar", vstr "..")])].
Proof. exact OneofExamples.flat_decode_fold_clash. Qed.
Example C04_variant_decode_bool_map_refused :
  (exists e, decode Ex OneofExamples.fs (q "FlatG")
               (JObj [(s "flags", JObj [(s "true", JStr (s "x"))]); (s "kind", JStr (s "bm")); (s "name", JStr (s "n"))]) = RErr e) /\
  (exists e, decode Ex OneofExamples.fs (q "NestG")
               (JObj [(s "bm", JObj [(s "flags", JObj [(s "true", JStr (s "x"))])]); (s "kind", JStr (s "bm"))]) = RErr e) /\
  decode Ex OneofExamples.fs (q "NestG") (JObj [(s "bm", JObj [(s "flags", JNull); (s "name", JStr (s "n"))]); (s "kind", JStr (s "bm"))])
    = ROk [(s "bm", FM [(s "name", vstr "n")])] /\
  decode Ex OneofExamples.fs (q "NestG") (JObj [(s "bm", JObj [(s "name", JStr (s "n"))]); (s "kind", JStr (s "bm"))])
    = ROk [(s "bm", FM [(s "name", vstr "n")])].
Proof. exact OneofExamples.variant_decode_bool_map_refused. Qed.

(* ---- appended by P15_full ---- *)
From SebufProofs Require FlattenFacts CodecAll.

(* The flatten codec (internal/httpgen/flatten.go), in general.  In the region defects_C04 = [] no flatten field is
   populated (D4FlattenReset fires for every populated one, empty child included): MarshalJSON is protojson followed by
   no-op folds, UnmarshalJSON's extraction finds nothing and protojson reads the object back.  Two computable side
   conditions, each shown necessary below:
     FlattenFacts.flatten_children_known  every flatten field is a field of a declared message type
                                          (annotations.ValidateFlattenField / protoc guarantee it; the decoder MODEL
                                          declines otherwise);
     FlattenFacts.flatten_probe_ok        no key the decoder probes (flatten_prefix ++ JSON name of a child field) is the
                                          JSON name of a populated field of the parent itself — otherwise the parent's own
                                          field is taken for the child's, deleted, and lost when protojson.Unmarshal resets
                                          the message.  annotations.ValidateFlattenCollisions refuses such schemas
                                          (FlattenFacts.flatten_no_collision is its schema-level form, see _schema below). *)
Theorem C04_roundtrip_flatten_unset : forall E, ExtLaws E -> forall sc tn md m j,
  find_message (all_messages sc) tn = Some md -> owner_of sc md = Own FtFlatten ->
  wt sc (KMessage tn) (FM m) = true -> defects_C04 sc tn m = [] ->
  FlattenFacts.flatten_children_known sc md = true -> FlattenFacts.flatten_probe_ok sc md m = true ->
  encode E sc tn m = ROk j -> decode E sc tn j = ROk (norm sc tn m).
Proof. exact FlattenFacts.flatten_roundtrip_unset. Qed.
Print Assumptions C04_roundtrip_flatten_unset.

(* the same for OneofPj.wt1 values: the parent may declare plain oneofs beside its flatten fields (wt rejects such types) *)
Theorem C04_roundtrip_flatten_unset_wt1 : forall E, ExtLaws E -> forall sc tn md m j,
  find_message (all_messages sc) tn = Some md -> owner_of sc md = Own FtFlatten ->
  OneofPj.wt1 sc tn m = true -> defects_C04 sc tn m = [] ->
  FlattenFacts.flatten_children_known sc md = true -> FlattenFacts.flatten_probe_ok sc md m = true ->
  encode E sc tn m = ROk j -> decode E sc tn j = ROk (norm sc tn m).
Proof. exact FlattenFacts.flatten_roundtrip_unset1. Qed.
Print Assumptions C04_roundtrip_flatten_unset_wt1.

Theorem C04_roundtrip_flatten_unset_schema : forall E, ExtLaws E -> forall sc tn md m j,
  find_message (all_messages sc) tn = Some md -> owner_of sc md = Own FtFlatten ->
  wt sc (KMessage tn) (FM m) = true -> defects_C04 sc tn m = [] ->
  FlattenFacts.flatten_children_known sc md = true -> FlattenFacts.flatten_no_collision sc md = true ->
  encode E sc tn m = ROk j -> decode E sc tn j = ROk (norm sc tn m).
Proof. exact FlattenFacts.flatten_roundtrip_unset_schema. Qed.
Print Assumptions C04_roundtrip_flatten_unset_schema.

(* the region: defects_C04 = [] on a flatten owner says exactly that no flatten field is populated *)
Theorem C04_flatten_defect_free_is_unset : forall sc tn md m,
  lookup_message sc tn = Some md -> owner_of sc md = Own FtFlatten ->
  defects_C04 sc tn m = [] -> FlattenFacts.flatten_unset md m = true.
Proof. exact FlattenFacts.defects_nil_iff_flatten_unset. Qed.
Print Assumptions C04_flatten_defect_free_is_unset.

(* the complement, for all schemas and values (C04_refuted_flatten_reset as a theorem): the decoder, on ANY object, returns
   a flatten field only when a key of the object itself addresses it; hence a value with a populated flatten field —
   whatever the child, the empty one included — is never given back.  Side condition, on the JSON the encoder wrote: no key
   of it addresses a populated flatten field (a limit of the proof, see C04_flatten_set_never_keys_off_limit) *)
Theorem C04_flatten_decode_drops : forall E sc tn md kv m',
  str_eqb tn ts_name = false -> is_wkt_other tn = false ->
  find_message (all_messages sc) tn = Some md -> owner_of sc md = Own FtFlatten ->
  forallb (fun e => match field_of_key md (fst e) with Some g => negb (is_flatten g) | None => true end) kv = true ->
  decode E sc tn (JObj kv) = ROk m' ->
  forall name x g, In (name, x) m' -> In g (m_fields md) -> f_name g = name -> OneofPj.msg_ok1 md = true -> is_flatten g = false.
Proof. exact FlattenFacts.flatten_decode_drops. Qed.
Print Assumptions C04_flatten_decode_drops.

Theorem C04_flatten_set_never_roundtrips : forall E sc tn md m j,
  lookup_message sc tn = Some md -> owner_of sc md = Own FtFlatten ->
  wt sc (KMessage tn) (FM m) = true ->
  FlattenFacts.flatten_unset md m = false ->
  encode E sc tn m = ROk j ->
  FlattenFacts.keys_off_set_flatten md m j = true ->
  decode E sc tn j <> ROk (norm sc tn m).
Proof. exact FlattenFacts.flatten_set_never_roundtrips. Qed.
Print Assumptions C04_flatten_set_never_roundtrips.

(* the same with schema-level side conditions only (and for wt1 values), when every populated flatten child is rendered by
   reflection (FlattenFacts.flatten_children_reflected: singular / optional field of a message type that owns no codec):
   FlattenFacts.flatten_self_free — no key flatten_prefix ++ PROTO name of a child field addresses a flatten field of the
   parent — gives the condition on the encoder's JSON *)
Theorem C04_flatten_set_never_roundtrips_reflected : forall E sc tn md m j,
  lookup_message sc tn = Some md -> owner_of sc md = Own FtFlatten ->
  OneofPj.wt1 sc tn m = true ->
  FlattenFacts.flatten_unset md m = false ->
  FlattenFacts.flatten_children_reflected sc md m = true -> FlattenFacts.flatten_self_free sc md = true ->
  encode E sc tn m = ROk j ->
  decode E sc tn j <> ROk (norm sc tn m).
Proof. exact FlattenFacts.flatten_set_never_roundtrips_reflected. Qed.
Print Assumptions C04_flatten_set_never_roundtrips_reflected.

(* non-vacuity: shared schema xs (Person, Post: the flatten field unset, the other field populated) and two prefixed
   flatten fields side by side (FlattenFacts.fls); flat_case_ok lists every hypothesis and the evaluated conclusion *)
Example C04_roundtrip_flatten_unset_nonvacuous :
  FlattenFacts.flat_case_ok xs (q "Person") [(s "id", vstr "1")] (JObj [(s "id", JStr (s "1"))]) /\
  FlattenFacts.flat_case_ok xs (q "Post") [(s "id", vstr "p")] (JObj [(s "id", JStr (s "p"))]) /\
  FlattenFacts.flat_case_ok FlattenFacts.fls (q "Pre") [(s "street", vstr "s")] (JObj [(s "street", JStr (s "s"))]).
Proof. exact FlattenFacts.flatten_roundtrip_unset_nonvacuous. Qed.
Print Assumptions C04_roundtrip_flatten_unset_nonvacuous.

(* flatten_probe_ok is needed: message Clash { string street = 1; Addr home = 2 [flatten] }, Addr { string street = 1; ... }:
   {"street":"s"} is decoded to the empty message although no flatten field was populated and no defect class fires *)
Example C04_roundtrip_flatten_unset_needs_probe_ok :
  let m := [(s "street", vstr "s")] in
  (exists md, find_message (all_messages FlattenFacts.fls) (q "Clash") = Some md /\ owner_of FlattenFacts.fls md = Own FtFlatten /\
              FlattenFacts.flatten_children_known FlattenFacts.fls md = true /\
              FlattenFacts.flatten_probe_ok FlattenFacts.fls md m = false /\ FlattenFacts.flatten_no_collision FlattenFacts.fls md = false) /\
  wt FlattenFacts.fls (KMessage (q "Clash")) (FM m) = true /\ defects_C04 FlattenFacts.fls (q "Clash") m = [] /\
  encode Ex FlattenFacts.fls (q "Clash") m = ROk (JObj [(s "street", JStr (s "s"))]) /\
  decode Ex FlattenFacts.fls (q "Clash") (JObj [(s "street", JStr (s "s"))]) = ROk [] /\
  norm FlattenFacts.fls (q "Clash") m = m.
Proof. exact FlattenFacts.flatten_roundtrip_unset_needs_probe_ok. Qed.

(* flatten_children_known is needed (in the model): flatten on a scalar field, on a field of an undeclared type *)
Example C04_roundtrip_flatten_unset_needs_children_known :
  let m := [(s "id", vstr "1")] in
  (exists md, find_message (all_messages FlattenFacts.fls) (q "Scalar") = Some md /\ owner_of FlattenFacts.fls md = Own FtFlatten /\
              FlattenFacts.flatten_children_known FlattenFacts.fls md = false /\ FlattenFacts.flatten_probe_ok FlattenFacts.fls md m = true) /\
  wt FlattenFacts.fls (KMessage (q "Scalar")) (FM m) = true /\ defects_C04 FlattenFacts.fls (q "Scalar") m = [] /\
  encode Ex FlattenFacts.fls (q "Scalar") m = ROk (JObj [(s "id", JStr (s "1"))]) /\
  decode Ex FlattenFacts.fls (q "Scalar") (JObj [(s "id", JStr (s "1"))]) = RUnm (s "unknown message type") /\
  (exists md, find_message (all_messages FlattenFacts.fls) (q "Gone") = Some md /\ owner_of FlattenFacts.fls md = Own FtFlatten /\
              FlattenFacts.flatten_children_known FlattenFacts.fls md = false /\ FlattenFacts.flatten_probe_ok FlattenFacts.fls md m = true) /\
  wt FlattenFacts.fls (KMessage (q "Gone")) (FM m) = true /\ defects_C04 FlattenFacts.fls (q "Gone") m = [] /\
  encode Ex FlattenFacts.fls (q "Gone") m = ROk (JObj [(s "id", JStr (s "1"))]) /\
  decode Ex FlattenFacts.fls (q "Gone") (JObj [(s "id", JStr (s "1"))]) = RUnm (s "unknown message type").
Proof. exact FlattenFacts.flatten_roundtrip_unset_needs_children_known. Qed.

(* C04_flatten_set_never_roundtrips: every hypothesis holds on the shared schema, child non-empty and child empty *)
Example C04_flatten_set_never_nonvacuous :
  (let m := [(s "id", vstr "1"); (s "home", FM [(s "street", vstr "s")])] in
   let j := JObj [(s "id", JStr (s "1")); (s "street", JStr (s "s"))] in
   (exists md, lookup_message xs (q "Person") = Some md /\ owner_of xs md = Own FtFlatten /\
               FlattenFacts.flatten_unset md m = false /\ FlattenFacts.keys_off_set_flatten md m j = true) /\
   wt xs (KMessage (q "Person")) (FM m) = true /\ defects_C04 xs (q "Person") m = [D4FlattenReset] /\
   encode Ex xs (q "Person") m = ROk j /\ decode Ex xs (q "Person") j = ROk [(s "id", vstr "1")]) /\
  (let m := [(s "id", vstr "1"); (s "home", FM [])] in
   let j := JObj [(s "id", JStr (s "1"))] in
   (exists md, lookup_message xs (q "Person") = Some md /\ owner_of xs md = Own FtFlatten /\
               FlattenFacts.flatten_unset md m = false /\ FlattenFacts.keys_off_set_flatten md m j = true) /\
   wt xs (KMessage (q "Person")) (FM m) = true /\ defects_C04 xs (q "Person") m = [D4FlattenReset] /\
   encode Ex xs (q "Person") m = ROk j /\ decode Ex xs (q "Person") j = ROk [(s "id", vstr "1")]).
Proof. exact FlattenFacts.flatten_set_never_nonvacuous. Qed.
(* its side condition fails here (Self { Inner a_b = 1 [flatten] }, Inner { string a_b = 1 }: the flattened child key
   "a_b" is the proto name of the flatten field) and the value is still not given back: a limit of the proof *)
Example C04_flatten_set_never_keys_off_limit :
  let m := [(s "a_b", FM [(s "a_b", vstr "x")])] in
  let j := JObj [(s "a_b", JStr (s "x"))] in
  (exists md, lookup_message FlattenFacts.fls (q "Self") = Some md /\ owner_of FlattenFacts.fls md = Own FtFlatten /\
              FlattenFacts.flatten_unset md m = false /\ FlattenFacts.keys_off_set_flatten md m j = false) /\
  wt FlattenFacts.fls (KMessage (q "Self")) (FM m) = true /\
  encode Ex FlattenFacts.fls (q "Self") m = ROk j /\ decode Ex FlattenFacts.fls (q "Self") j = RErr (s "expected object").
Proof. exact FlattenFacts.flatten_set_never_keys_off_limit. Qed.

Example C04_flatten_set_never_reflected_nonvacuous :
  (let m := [(s "id", vstr "1"); (s "home", FM [(s "street", vstr "s")])] in
   (exists md, lookup_message xs (q "Person") = Some md /\ owner_of xs md = Own FtFlatten /\ FlattenFacts.flatten_unset md m = false /\
               FlattenFacts.flatten_children_reflected xs md m = true /\ FlattenFacts.flatten_self_free xs md = true) /\
   OneofPj.wt1 xs (q "Person") m = true) /\
  (let m := [(s "id", vstr "1"); (s "detail", FM [(s "body_text", vstr "b")])] in
   (exists md, lookup_message xs (q "Post") = Some md /\ owner_of xs md = Own FtFlatten /\ FlattenFacts.flatten_unset md m = false /\
               FlattenFacts.flatten_children_reflected xs md m = true /\ FlattenFacts.flatten_self_free xs md = true) /\
   OneofPj.wt1 xs (q "Post") m = true /\
   encode Ex xs (q "Post") m = ROk (JObj [(s "id", JStr (s "1")); (s "body_text", JStr (s "b"))]) /\
   decode Ex xs (q "Post") (JObj [(s "id", JStr (s "1")); (s "body_text", JStr (s "b"))]) = RErr (s "unknown field")) /\
  (exists md, lookup_message FlattenFacts.fls (q "Self") = Some md /\ FlattenFacts.flatten_self_free FlattenFacts.fls md = false).
Proof. exact FlattenFacts.flatten_set_never_reflected_nonvacuous. Qed.

(* protojson both ways on wt1 values: ProtoJsonFacts.pj_roundtrip / C04_roundtrip_partial for message types that declare
   plain (not discriminated) oneofs, which wt rejects *)
Theorem C04_pj_roundtrip_wt1 : forall E, ExtLaws E -> forall sc tn m j,
  OneofPj.wt1 sc tn m = true -> pj_marshal E sc tn m = ROk j -> pj_unmarshal E sc tn j = ROk m.
Proof. exact FlattenFacts.pj_roundtrip_wt1. Qed.
Print Assumptions C04_pj_roundtrip_wt1.
Theorem C04_roundtrip_partial_wt1 : forall E, ExtLaws E -> forall sc tn m j,
  owns sc tn = false -> OneofPj.wt1 sc tn m = true ->
  encode E sc tn m = ROk j -> decode E sc tn j = ROk (norm sc tn m).
Proof. exact FlattenFacts.C04_roundtrip_plain1. Qed.
Print Assumptions C04_roundtrip_partial_wt1.

(* ==== every codec at once ======================================================================================= *)
(* ONE round-trip theorem for every message type, whatever owns its MarshalJSON: no codec, nullable, int64 NUMBER,
   bytes_encoding, timestamp_format, empty_behavior, root unwrap, map-value unwrap, flatten, discriminated oneof —
   and two features at once, where the emitted code does not compile, the model's encoder answers RUnm and the case is
   vacuous.  Hypotheses: OneofPj.wt1 (wt generalised to types that declare oneofs), defects_C04 = [], encode = ROk, and
   ONE computable predicate CodecAll.codec_side_ok: the case distinction on owner_of that collects what the per-codec
   theorems still ask for (C04_codec_side_ok_demands lists it owner by owner). *)
Theorem C04_roundtrip_all_codecs : forall E, ExtLaws E -> forall sc tn m j,
  OneofPj.wt1 sc tn m = true ->
  defects_C04 sc tn m = [] ->
  CodecAll.codec_side_ok sc tn m = true ->
  encode E sc tn m = ROk j -> decode E sc tn j = ROk (norm sc tn m).
Proof. exact CodecAll.C04_roundtrip_all_codecs. Qed.
Print Assumptions C04_roundtrip_all_codecs.

(* with the hypothesis of C04_roundtrip_full: C04_roundtrip_full restricted by codec_side_ok and nothing else *)
Theorem C04_roundtrip_all_codecs_wt : forall E, ExtLaws E -> forall sc tn m j,
  wt sc (KMessage tn) (FM m) = true ->
  defects_C04 sc tn m = [] ->
  CodecAll.codec_side_ok sc tn m = true ->
  encode E sc tn m = ROk j -> decode E sc tn j = ROk (norm sc tn m).
Proof. exact CodecAll.C04_roundtrip_all_codecs_wt. Qed.
Print Assumptions C04_roundtrip_all_codecs_wt.

(* how far C04_roundtrip_full is: what codec_side_ok demands, owner kind by owner kind.  Nothing for "no codec"; for the
   five field codecs CodecAll.no_members ("no field is a member of a real oneof": what wt asks of every message type
   anyway — their theorems are stated with wt); the unwrap codecs cannot have oneof members (a root-unwrap field is
   repeated or a map, the map-value codec does not compile with a member): their own side conditions only *)
Example C04_codec_side_ok_demands : forall sc tn md m, lookup_message sc tn = Some md ->
  (owner_of sc md = OwnNone -> CodecAll.codec_side_ok sc tn m = true) /\
  (forall ft, CodecCompose.field_codec_ft ft = true -> owner_of sc md = Own ft -> CodecAll.codec_side_ok sc tn m = CodecAll.no_members md) /\
  (owner_of sc md = Own FtUnwrapRoot -> CodecAll.codec_side_ok sc tn m = UnwrapRootFacts.unwrap_root_dom sc md) /\
  (owner_of sc md = Own FtUnwrapMap ->
     CodecAll.codec_side_ok sc tn m = UnwrapMapFacts.gj_enums_rt sc md m && UnwrapMapFacts.reflected_maps_plain sc md m) /\
  (owner_of sc md = Own FtFlatten ->
     CodecAll.codec_side_ok sc tn m = FlattenFacts.flatten_children_known sc md && FlattenFacts.flatten_probe_ok sc md m) /\
  (owner_of sc md = Own FtOneof ->
     CodecAll.codec_side_ok sc tn m =
       NullableFacts.nodup_str (map o_name (m_oneofs md)) && OneofFacts.oneof_keys_ok sc md m &&
       OneofFacts.disc_values_ok md && OneofFacts.variant_types_plain sc md m && OneofFacts.variant_no_gap sc md m) /\
  (owner_of sc md = OwnMany -> CodecAll.codec_side_ok sc tn m = true).
Proof. exact CodecAll.codec_side_ok_demands. Qed.
(* for a value well-typed in the sense of C04_roundtrip_full (wt), no_members holds by itself: nothing remains for "no
   codec", the five field codecs and root unwrap of messages *)
Example C04_codec_side_ok_demands_wt : forall sc tn md m,
  str_eqb tn ts_name = false -> find_message (all_messages sc) tn = Some md -> wt sc (KMessage tn) (FM m) = true ->
  (owner_of sc md = OwnNone -> CodecAll.codec_side_ok sc tn m = true) /\
  (forall ft, CodecCompose.field_codec_ft ft = true -> owner_of sc md = Own ft -> CodecAll.codec_side_ok sc tn m = true) /\
  (owner_of sc md = Own FtUnwrapRoot -> UnwrapRootFacts.msg_elems sc md = true -> CodecAll.codec_side_ok sc tn m = true).
Proof. exact CodecAll.codec_side_ok_demands_wt. Qed.

(* non-vacuity on the shared schema xs, ten owner kinds (all_case_ok: every hypothesis, the JSON, the evaluated conclusion) *)
Example C04_roundtrip_all_codecs_nonvacuous :
  CodecAll.all_case_ok xs (q "Leaf") OwnNone
    [(s "a", vstr "x"); (s "n", vint 3)]
    (JObj [(s "a", JStr (s "x")); (s "n", JStr (s "3"))])
    [(s "a", vstr "x"); (s "n", vint 3)] /\
  CodecAll.all_case_ok xs (q "Nums") (Own FtInt64)
    [(s "big", vint 9007199254740993); (s "name", vstr "n")]
    (JObj [(s "big", JNum 9007199254740993); (s "name", JStr (s "n"))])
    [(s "big", vint 9007199254740993); (s "name", vstr "n")] /\
  CodecAll.all_case_ok xs (q "Nul") (Own FtNullable)
    [(s "id", vstr "x")]
    (JObj [(s "id", JStr (s "x")); (s "nick", JNull)])
    [(s "id", vstr "x")] /\
  CodecAll.all_case_ok xs (q "Emp") (Own FtEmpty)
    [(s "nul_it", FM []); (s "omit", FM []); (s "id", vstr "x")]
    (JObj [(s "nulIt", JNull); (s "id", JStr (s "x"))])
    [(s "nul_it", FM []); (s "id", vstr "x")] /\
  CodecAll.all_case_ok xs (q "Times") (Own FtTs)
    [(s "secs", tsv 5 123456789); (s "day", tsv 90000 1); (s "id", vstr "x")]
    (JObj [(s "secs", JNum 5); (s "day", JStr (s "1970-01-02")); (s "id", JStr (s "x"))])
    [(s "secs", tsv 5 0); (s "day", tsv 86400 0); (s "id", vstr "x")] /\
  CodecAll.all_case_ok xs (q "Blob") (Own FtBytes)
    [(s "h", FS (VBytes [ch 105; ch 183])); (s "id", vstr "x")]
    (JObj [(s "h", JStr (s "69b7")); (s "id", JStr (s "x"))])
    [(s "h", FS (VBytes [ch 105; ch 183])); (s "id", vstr "x")] /\
  CodecAll.all_case_ok xs (q "BarList") (Own FtUnwrapRoot)
    [(s "bars", FL [FM [(s "a", vstr "x")]; FM []])]
    (JArr [JObj [(s "a", JStr (s "x"))]; JObj []])
    [(s "bars", FL [FM [(s "a", vstr "x")]; FM []])] /\
  CodecAll.all_case_ok xs (q "Series") (Own FtUnwrapMap)
    [(s "by_sym", FMap [(VStr (s "A"), FM [(s "bars", FL [FM [(s "a", vstr "x")]; FM []])])]);
     (s "total_count", vint 4); (s "ratio", FS (VFloat 4609434218613702656))]
    (JObj [(s "bySym", JObj [(s "A", JArr [JObj [(s "a", JStr (s "x"))]; JObj []])]);
           (s "totalCount", JNum 4); (s "ratio", jflt 4609434218613702656)])
    [(s "by_sym", FMap [(VStr (s "A"), FM [(s "bars", FL [FM [(s "a", vstr "x")]; FM []])])]);
     (s "total_count", vint 4); (s "ratio", FS (VFloat 4609434218613702656))] /\
  CodecAll.all_case_ok xs (q "Person") (Own FtFlatten)
    [(s "id", vstr "1")]
    (JObj [(s "id", JStr (s "1"))])
    [(s "id", vstr "1")] /\
  CodecAll.all_case_ok xs (q "Event") (Own FtOneof)
    [(s "eid", vstr "e"); (s "image", FM [(s "url", vstr "u")])]
    (JObj [(s "eid", JStr (s "e")); (s "image", JObj [(s "url", JStr (s "u"))]); (s "ctype", JStr (s "image"))])
    [(s "eid", vstr "e"); (s "image", FM [(s "url", vstr "u")])] /\
  CodecAll.all_case_ok xs (q "FlatEvent") (Own FtOneof)
    [(s "eid", vstr "e"); (s "wide", FM [])]
    (JObj [(s "eid", JStr (s "e")); (s "ctype", JStr (s "wide"))])
    [(s "eid", vstr "e"); (s "wide", FM [])].
Proof. exact CodecAll.roundtrip_all_codecs_nonvacuous. Qed.
Print Assumptions C04_roundtrip_all_codecs_nonvacuous.

(* two MarshalJSON features on one message (int64 NUMBER + nullable): every other hypothesis holds, encode = RUnm *)
Example C04_roundtrip_all_codecs_own_many_vacuous :
  let m := [(s "big", vint 5)] in
  (exists md, lookup_message CodecAll.als (q "Two") = Some md /\ owner_of CodecAll.als md = OwnMany) /\
  OneofPj.wt1 CodecAll.als (q "Two") m = true /\ defects_C04 CodecAll.als (q "Two") m = [] /\
  CodecAll.codec_side_ok CodecAll.als (q "Two") m = true /\
  encode Ex CodecAll.als (q "Two") m = RUnm (s "two MarshalJSON features on one message (does not compile, C13)").
Proof. exact CodecAll.roundtrip_all_codecs_own_many_vacuous. Qed.

(* beyond wt: a plain (not discriminated) oneof on a message without a codec, and beside an unset flatten field — wt rejects
   the type, wt1 accepts the value, codec_side_ok is true, and the theorem gives the round trip *)
Example C04_roundtrip_all_codecs_plain_oneof :
  CodecAll.all_case_ok CodecAll.als (q "Pick") OwnNone
    [(s "id", vstr "x"); (s "b", vint 0)]
    (JObj [(s "id", JStr (s "x")); (s "b", JNum 0)])
    [(s "id", vstr "x"); (s "b", vint 0)] /\
  wt CodecAll.als (KMessage (q "Pick")) (FM [(s "id", vstr "x"); (s "b", vint 0)]) = false /\
  CodecAll.all_case_ok CodecAll.als (q "FlatPick") (Own FtFlatten)
    [(s "id", vstr "x"); (s "a", vstr "y")]
    (JObj [(s "id", JStr (s "x")); (s "a", JStr (s "y"))])
    [(s "id", vstr "x"); (s "a", vstr "y")] /\
  wt CodecAll.als (KMessage (q "FlatPick")) (FM [(s "id", vstr "x"); (s "a", vstr "y")]) = false.
Proof. exact CodecAll.roundtrip_all_codecs_plain_oneof. Qed.

(* no_members (asked of the five field codecs only) is a limit of the proofs, not a known exception: a plain oneof beside
   an int64 NUMBER field: codec_side_ok is false, every other hypothesis holds, and the round trip holds *)
Example C04_roundtrip_all_codecs_no_members_limit :
  let m := [(s "big", vint 9007199254740993); (s "b", vint 0)] in
  (exists md, lookup_message CodecAll.als (q "PickNum") = Some md /\ owner_of CodecAll.als md = Own FtInt64 /\ CodecAll.no_members md = false) /\
  OneofPj.wt1 CodecAll.als (q "PickNum") m = true /\ wt CodecAll.als (KMessage (q "PickNum")) (FM m) = false /\
  defects_C04 CodecAll.als (q "PickNum") m = [] /\ CodecAll.codec_side_ok CodecAll.als (q "PickNum") m = false /\
  rt_holds Ex CodecAll.als (q "PickNum") m = true.
Proof. exact CodecAll.roundtrip_all_codecs_no_members_limit. Qed.

Example C04_codec_side_ok_examples :
  CodecAll.codec_side_ok xs (q "Plain") [] = true /\ CodecAll.codec_side_ok xs (q "Strs") [(s "vals", FL [vstr "a"])] = true /\
  CodecAll.codec_side_ok xs (q "Post") [(s "id", vstr "p")] = true /\
  CodecAll.codec_side_ok xs (q "FlatEvent") [(s "times", FM [(s "secs", tsv 5 0)])] = false /\
  CodecAll.codec_side_ok FlattenFacts.fls (q "Clash") [(s "street", vstr "s")] = false /\
  CodecAll.codec_side_ok xs ts_name [] = true /\ CodecAll.codec_side_ok xs (s "x.v1.Missing") [] = true /\
  OneofPj.wt1 xs (s "x.v1.Missing") [] = false.
Proof. exact CodecAll.codec_side_ok_examples. Qed.
