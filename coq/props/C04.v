(* C04 — generated Go JSON codecs round-trip every message value.
   Statements only; the proofs are in proofs/{CodecTextFacts,ProtoJsonFacts,CodecFacts}.v. *)
From Sebuf Require Import CodecCases.
From SebufProofs Require Import CodecTextFacts ProtoJsonFacts CodecExamples CodecFacts NullableFacts.

(* text layer, for ALL byte lists / integers *)
Theorem C04_base64_std : forall x, b64_dec false true (b64_enc false true x) = Some x.
Proof. exact base64_std_roundtrip. Qed.
Print Assumptions C04_base64_std.
Theorem C04_base64_raw : forall x, b64_dec false false (b64_enc false false x) = Some x.
Proof. exact base64_raw_roundtrip. Qed.
Print Assumptions C04_base64_raw.
Theorem C04_base64url : forall x, b64_dec true true (b64_enc true true x) = Some x.
Proof. exact base64url_roundtrip. Qed.
Print Assumptions C04_base64url.
Theorem C04_base64url_raw : forall x, b64_dec true false (b64_enc true false x) = Some x.
Proof. exact base64url_raw_roundtrip. Qed.
Print Assumptions C04_base64url_raw.
Theorem C04_hex : forall x, hex_dec (hex_enc x) = Some x.
Proof. exact hex_roundtrip. Qed.
Print Assumptions C04_hex.
Theorem C04_decimal : forall z, Z_of_dec (show_Z z) = Some z.
Proof. exact decimal_roundtrip. Qed.
Print Assumptions C04_decimal.

(* protojson: unmarshal (marshal m) = m for every well-typed value of every schema, under the
   library laws (floats, RFC 3339) *)
Theorem C04_pj_roundtrip : forall E, ExtLaws E -> forall sc tn m j,
  wt sc (KMessage tn) (FM m) = true -> pj_marshal E sc tn m = ROk j -> pj_unmarshal E sc tn j = ROk m.
Proof. exact pj_roundtrip. Qed.
Print Assumptions C04_pj_roundtrip.

(* the codec round trip, part proved so far: every message type without a codec of its own (that is
   what the server and client use for it), whatever annotated types occur below it.
   C04_roundtrip_nullable adds the nullable codec in general.  C04_roundtrip_full (below) is the
   statement for all message types; the other rewrite pipelines (int64 NUMBER, empty_behavior,
   timestamp_format, bytes_encoding, unwrap, non-flattened oneof) are covered by the correspondence
   check and by the witnesses, not yet by a general proof. *)
Theorem C04_roundtrip_partial : forall E, ExtLaws E -> forall sc tn m j,
  owns sc tn = false -> wt sc (KMessage tn) (FM m) = true ->
  encode E sc tn m = ROk j -> decode E sc tn j = ROk (norm sc tn m).
Proof. exact C04_roundtrip_plain. Qed.
Print Assumptions C04_roundtrip_partial.

(* the nullable codec (nullable.go), in general: every schema, every well-typed value *)
Theorem C04_roundtrip_nullable : forall E, ExtLaws E -> forall sc tn md m j,
  str_eqb tn ts_name = false -> is_wkt_other tn = false ->
  find_message (all_messages sc) tn = Some md -> owner_of sc md = Own FtNullable ->
  nodup_str (map jn (m_fields md)) = true ->
  wt sc (KMessage tn) (FM m) = true ->
  encode E sc tn m = ROk j -> decode E sc tn j = ROk (norm sc tn m).
Proof. exact nullable_roundtrip. Qed.
Print Assumptions C04_roundtrip_nullable.

Definition C04_roundtrip_full : Prop := forall E, ExtLaws E -> forall sc tn m j,
  wt sc (KMessage tn) (FM m) = true -> defects_C04 sc tn m = [] ->
  encode E sc tn m = ROk j -> decode E sc tn j = ROk (norm sc tn m).

(* refutations: one witness per defect class *)
Theorem C04_refuted_flatten_reset :
  refuted4 D4FlattenReset (q "Person") [(s "id", vstr "1"); (s "home", FM [(s "street", vstr "s")])].
Proof. exact CodecFacts.C04_refuted_flatten_reset. Qed.
Print Assumptions C04_refuted_flatten_reset.
Theorem C04_refuted_flatten_child_keys :
  defects_C04 xs (q "Post") [(s "id", vstr "1"); (s "detail", FM [(s "body_text", vstr "b")])] = [D4FlattenReset; D4FlattenChildKeys] /\
  exists j, encode Ex xs (q "Post") [(s "id", vstr "1"); (s "detail", FM [(s "body_text", vstr "b")])] = ROk j /\
            exists e, decode Ex xs (q "Post") j = RErr e.
Proof. exact CodecFacts.C04_refuted_flatten_child_keys. Qed.
Print Assumptions C04_refuted_flatten_child_keys.
Theorem C04_refuted_flat_oneof_child :
  refuted4 D4FlatOneofChild (q "FlatEvent") [(s "eid", vstr "e"); (s "wide", FM [(s "alt_text", vstr "a")])].
Proof. exact CodecFacts.C04_refuted_flat_oneof_child. Qed.
Print Assumptions C04_refuted_flat_oneof_child.
Theorem C04_refuted_flat_oneof_remarshal :
  refuted4 D4FlatOneofRemarshal (q "FlatEvent") [(s "times", FM [(s "secs", tsv 5 0)])].
Proof. exact CodecFacts.C04_refuted_flat_oneof_remarshal. Qed.
Print Assumptions C04_refuted_flat_oneof_remarshal.
Theorem C04_refuted_oneof_variant_reflect :
  refuted4 D4OneofVariantReflect (q "Event") [(s "image", FM [(s "size", vint 7)])].
Proof. exact CodecFacts.C04_refuted_oneof_variant_reflect. Qed.
Print Assumptions C04_refuted_oneof_variant_reflect.
Theorem C04_refuted_unwrap_sibling_nonfinite :
  defects_C04 xs (q "Series") [(s "ratio", FS (VFloat 9221120237041090561))] = [D4UnwrapSiblingNonFinite] /\
  exists e, encode Ex xs (q "Series") [(s "ratio", FS (VFloat 9221120237041090561))] = RErr e.
Proof. exact CodecFacts.C04_refuted_unwrap_sibling_nonfinite. Qed.
Print Assumptions C04_refuted_unwrap_sibling_nonfinite.
Theorem C04_refuted_unwrap_sibling_negzero :
  refuted4 D4UnwrapSiblingNegZero (q "Series") [(s "ratio", FS (VFloat 9223372036854775808))].
Proof. exact CodecFacts.C04_refuted_unwrap_sibling_negzero. Qed.
Print Assumptions C04_refuted_unwrap_sibling_negzero.
Theorem C04_refuted_enum_codec_unknown :
  defects_C04 xs (q "EnumSeries") [(s "st", FS (VEnum 99))] = [D4EnumCodecUnknown] /\
  exists j, encode Ex xs (q "EnumSeries") [(s "st", FS (VEnum 99))] = ROk j /\
            exists e, decode Ex xs (q "EnumSeries") j = RErr e.
Proof. exact CodecFacts.C04_refuted_enum_codec_unknown. Qed.
Print Assumptions C04_refuted_enum_codec_unknown.
Theorem C04_canonical_in_refuted :
  exists tn m j, to_json Ex xs tn m = ROk j /\ defects_C05 xs tn m <> [] /\ exists e, decode Ex xs tn j = RErr e.
Proof. exact CodecFacts.C04_canonical_in_refuted. Qed.
Print Assumptions C04_canonical_in_refuted.

(* non-vacuity *)
Example C04_nonvacuous :
  (let m := [(s "big", vint 9007199254740993); (s "name", vstr "n")] in
   owns xs (q "Nums") = true /\ defects_C04 xs (q "Nums") m = [] /\ rt_holds Ex xs (q "Nums") m = true) /\
  (let m := [(s "id", vstr "i"); (s "big_num", vint (-5)); (s "tags", FL [vstr "a"; vstr "b"]);
             (s "by_key", FMap [(VStr (s "k"), FM [(s "a", vstr "x"); (s "n", vint 3)])]);
             (s "leaf", FM []); (s "at", tsv 1700000000 500000000); (s "raw", FS (VBytes [ch 251; ch 255]));
             (s "ratio", FS (VFloat 4609434218613702656)); (s "opt_n", vint 0)] in
   wt xs (KMessage (q "Plain")) (FM m) = true /\ owns xs (q "Plain") = false /\ rt_holds Ex xs (q "Plain") m = true).
Proof. split; [exact C04_nonvacuous_int64 | exact C04_nonvacuous_plain]. Qed.
Example C04_nonvacuous_lossy :
  let m := [(s "secs", tsv 5 123456789); (s "day", tsv 90000 1); (s "id", vstr "x")] in
  defects_C04 xs (q "Times") m = [] /\ rt_holds Ex xs (q "Times") m = true /\
  norm xs (q "Times") m = [(s "secs", tsv 5 0); (s "day", tsv 86400 0); (s "id", vstr "x")].
Proof. exact C04_nonvacuous_ts_lossy. Qed.
