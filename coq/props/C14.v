(* C14 — go-http and go-client emit interchangeable codec files.
   Model: Files.v (which files, and which types get a MarshalJSON/UnmarshalJSON pair from which emitter).
   The byte identity of same-named files is checked directly on the plugins' output on every run
   (family same-name-identical); the theorems below are about the file/method sets. *)
From Sebuf Require Import Text Schema Validate Files.
From SebufProofs Require Import FilesFacts.

(* Whenever the client plugin emits a codec file, the server plugin's file of that name (if it emits one) defines
   methods for the same types, in the same order: no defect hypothesis. *)
Theorem C14_same_name_same_codec : forall sc f c,
  client_contexts sc f c <> [] -> client_contexts sc f c = http_contexts sc f c.
Proof. exact C14_same_name_same_contexts_lemma. Qed.
Print Assumptions C14_same_name_same_codec.

(* Outside the two defect classes a package generated with the client plugin alone has a codec pair for exactly the
   (type, emitter) pairs the server package has one for. *)
Theorem C14_client_only_equiv : forall sc, defects_C14 sc = [] ->
  forall tn c, client_has sc tn c = server_has sc tn c.
Proof. exact C14_client_only_equiv_lemma. Qed.
Print Assumptions C14_client_only_equiv.

(* Generating both into one directory: the codec file found under each name lists the same types whichever plugin ran last. *)
Theorem C14_order_independent : forall sc, NoDup (map fl_path (gen_files sc)) ->
  forall n, dir_lookup n (directory [GoHttp; GoClient] sc) = dir_lookup n (directory [GoClient; GoHttp] sc).
Proof. exact C14_order_independent_lemma. Qed.
Print Assumptions C14_order_independent.

Theorem C14_refuted_client_no_unwrap : exists sc tn, go_http_accepts sc = None /\ go_client_accepts sc = None /\
  defects_C14 sc = [ClientNoUnwrap] /\ server_has sc tn CUnwrap = true /\ client_has sc tn CUnwrap = false /\
  emitted_go_http false sc = [(s "a.proto", SUnwrap); (s "a.proto", SHttp); (s "a.proto", SHttpBinding); (s "a.proto", SHttpConfig)] /\
  emitted_go_client sc = [(s "a.proto", SClient)].
Proof. exact C14_refuted_client_no_unwrap_lemma. Qed.

Theorem C14_refuted_client_serviceless_no_int64_enum : exists sc, go_http_accepts sc = None /\ go_client_accepts sc = None /\
  defects_C14 sc = [ClientServicelessNoInt64Enum] /\
  server_has sc (s "p.Nums") CInt64 = true /\ client_has sc (s "p.Nums") CInt64 = false /\
  server_has sc (s "p.Status") CEnum = true /\ client_has sc (s "p.Status") CEnum = false.
Proof. exact C14_refuted_serviceless_lemma. Qed.

Example C14_nonvacuous :
  defects_C14 nv14 = [] /\ go_http_accepts nv14 = None /\
  emitted_go_client nv14 = [(s "a.proto", SNullable); (s "a.proto", STimestampFormat); (s "a.proto", SFlatten); (s "a.proto", SOneofDiscriminator);
                            (s "a.proto", SClient); (s "a.proto", SEncoding); (s "a.proto", SEnumEncoding)] /\
  emitted_go_http false nv14 = [(s "a.proto", SEncoding); (s "a.proto", SEnumEncoding); (s "a.proto", SNullable); (s "a.proto", STimestampFormat);
                                (s "a.proto", SFlatten); (s "a.proto", SOneofDiscriminator); (s "a.proto", SHttp); (s "a.proto", SHttpBinding); (s "a.proto", SHttpConfig)] /\
  client_has nv14 (s "p.Nums") CInt64 = true /\ client_has nv14 (s "p.Person.Inner") CNullable = true.
Proof. exact C14_nonvacuous_lemma. Qed.

(* nested declarations: every collector walks the messages declared inside an annotated message too
   (the flat pre-order message list of a file holds them), on both sides, in the same order *)
Example C14_nested_declarations :
  forall f, In f (gen_files w_nested) ->
    client_contexts w_nested f CTimestamp = [s "p.Event"; s "p.Event.Occurrence"; s "p.Event.Occurrence.Detail"; s "p.Audit.Entry"] /\
    http_contexts w_nested f CTimestamp = client_contexts w_nested f CTimestamp /\
    context_types false w_nested f CTimestamp = [s "Event"; s "Event_Occurrence"; s "Event_Occurrence_Detail"; s "Audit_Entry"] /\
    context_types true w_nested f CTimestamp = context_types false w_nested f CTimestamp /\
    defects_C14 w_nested = [].
Proof. exact C14_nested_declarations_lemma. Qed.
