(* C02 — A request field bound to a path variable or a query parameter arrives at the handler with the
   URL's value whenever the body does not itself mention that field (and, since the body is now bound
   before the URL values, also when it does), for every verb; a URL value that
   cannot be converted, or a missing required query parameter, yields HTTP 400 naming that field and the
   handler is not invoked.
   Only statements, [exact <lemma>], Print Assumptions, and examples checked by computation. *)
From Sebuf Require Import Text Json Route Schema Value Num Url GoRt GoRtRaw.
From SebufProofs Require Import GoRtFacts GoRtRawFacts.

(* ---- 1. the URL's values reach the handler, whatever the body says ------------------------------------ *)

(* [raw_start r rq]: the decoded body of a POST/PUT/PATCH (the empty message when there is none or the
   verb carries none).  What the handler sees is that message with the path values, then the query
   values, bound on top of it. *)
Theorem C02_url_wins : forall rs rq n saw c p r b,
  raw_handle rs rq = Ok (RDispatched n saw) ->
  rq_path rq = c :: p ->
  find_route rs (rq_verb rq) (split_on slash p) = Some (r, b) ->
  n = md_name (sr_md r) /\
  exists m0 m1,
    raw_start r rq = inl m0 /\
    bind_path (sr_fields r) (rt_pathvars (sr_route r)) b m0 = inl m1 /\
    bind_query_raw (sr_fields r) (query_fields (sr_fields r)) (parse_query (rq_query rq)) m1 = inl saw.
Proof. exact url_wins. Qed.
Print Assumptions C02_url_wins.

Theorem C02_start_is_body : forall r rq m0, raw_start r rq = inl m0 ->
  m0 = (if rt_body (sr_route r) then match rq_body rq with Some (_, v) => v | None => [] end else []).
Proof. exact raw_start_inl. Qed.
Print Assumptions C02_start_is_body.

(* ---- 2. what the URL binds ------------------------------------------------------------------------------ *)

(* (a) path variables: the converted text of the matched segment; other keys untouched *)
Theorem C02_path_values : forall fs b vars m m1, bind_path fs vars b m = inl m1 ->
  (forall k, ~ In k vars -> mget m1 k = mget m k) /\
  (forall v f, In v vars -> find_field fs v = Some f ->
     exists x, binding_of b v <> [] /\ convert (f_kind f) (binding_of b v) = Some x /\
               scalar_of m1 f = x).
Proof. exact bind_path_vals. Qed.
Print Assumptions C02_path_values.

(* (a) continued: query binding leaves fields with other names alone *)
Theorem C02_query_keeps : forall fs q qfs m m2 g,
  NoDup (map f_name qfs) -> bind_query_raw fs qfs q m = inl m2 ->
  ~ In (f_name g) (map f_name qfs) -> scalar_of m2 g = scalar_of m g.
Proof. exact bind_query_raw_keeps. Qed.
Print Assumptions C02_query_keeps.

(* (b) singular query fields: the converted first occurrence *)
Theorem C02_query_singular : forall fs q qfs m m2 f x xs,
  NoDup (map f_name qfs) -> bind_query_raw fs qfs q m = inl m2 ->
  In f qfs -> is_repeated f = false -> query_values q (qname f) = x :: xs ->
  exists v, convert (f_kind f) x = Some v /\ scalar_of m2 f = v.
Proof. exact bind_query_raw_singular. Qed.
Print Assumptions C02_query_singular.

(* (c) repeated query fields: every occurrence, converted, in order *)
Theorem C02_query_repeated : forall fs q qfs m m2 f x xs,
  NoDup (map f_name qfs) -> bind_query_raw fs qfs q m = inl m2 ->
  In f qfs -> is_repeated f = true -> query_values q (qname f) = x :: xs ->
  exists l, convert_all (f_kind f) (x :: xs) = Some l /\ mget m2 (f_name f) = Some (FL l) /\
            Forall2 (fun y e => exists v, convert (f_kind f) y = Some v /\ e = FS v) (x :: xs) l.
Proof. exact bind_query_raw_repeated. Qed.
Print Assumptions C02_query_repeated.

(* (a)-(c) and absent optional parameters in one statement *)
Theorem C02_query_values : forall fs q qfs m m2,
  NoDup (map f_name qfs) -> bind_query_raw fs qfs q m = inl m2 ->
  (forall k, ~ In k (map f_name qfs) -> mget m2 k = mget m k) /\
  (forall f, In f qfs -> query_gives q m m2 f).
Proof. exact bind_query_raw_vals. Qed.
Print Assumptions C02_query_values.

(* end to end: what the handler sees, with no premise on the body *)
Theorem C02_handler_sees_path_value : forall rs rq n saw c p r b v f,
  raw_handle rs rq = Ok (RDispatched n saw) ->
  rq_path rq = c :: p ->
  find_route rs (rq_verb rq) (split_on slash p) = Some (r, b) ->
  NoDup (map f_name (query_fields (sr_fields r))) ->
  In v (rt_pathvars (sr_route r)) -> find_field (sr_fields r) v = Some f ->
  ~ In v (map f_name (query_fields (sr_fields r))) ->
  exists x, convert (f_kind f) (binding_of b v) = Some x /\ scalar_of saw f = x.
Proof. exact handler_sees_path_value. Qed.
Print Assumptions C02_handler_sees_path_value.

Theorem C02_handler_sees_query_value : forall rs rq n saw c p r b f x xs,
  raw_handle rs rq = Ok (RDispatched n saw) ->
  rq_path rq = c :: p ->
  find_route rs (rq_verb rq) (split_on slash p) = Some (r, b) ->
  NoDup (map f_name (query_fields (sr_fields r))) ->
  In f (query_fields (sr_fields r)) -> is_repeated f = false ->
  query_values (parse_query (rq_query rq)) (qname f) = x :: xs ->
  exists y, convert (f_kind f) x = Some y /\ scalar_of saw f = y.
Proof. exact handler_sees_query_value. Qed.
Print Assumptions C02_handler_sees_query_value.

Theorem C02_handler_sees_query_list : forall rs rq n saw c p r b f x xs,
  raw_handle rs rq = Ok (RDispatched n saw) ->
  rq_path rq = c :: p ->
  find_route rs (rq_verb rq) (split_on slash p) = Some (r, b) ->
  NoDup (map f_name (query_fields (sr_fields r))) ->
  In f (query_fields (sr_fields r)) -> is_repeated f = true ->
  query_values (parse_query (rq_query rq)) (qname f) = x :: xs ->
  exists l, convert_all (f_kind f) (x :: xs) = Some l /\ mget saw (f_name f) = Some (FL l).
Proof. exact handler_sees_query_list. Qed.
Print Assumptions C02_handler_sees_query_list.

(* what the URL does not bind comes from the body *)
Theorem C02_handler_sees_body_elsewhere : forall rs rq n saw c p r b,
  raw_handle rs rq = Ok (RDispatched n saw) ->
  rq_path rq = c :: p ->
  find_route rs (rq_verb rq) (split_on slash p) = Some (r, b) ->
  NoDup (map f_name (query_fields (sr_fields r))) ->
  exists m0, raw_start r rq = inl m0 /\
    (forall k, ~ In k (rt_pathvars (sr_route r)) -> ~ In k (map f_name (query_fields (sr_fields r))) ->
       mget saw k = mget m0 k) /\
    (forall f, In f (query_fields (sr_fields r)) -> ~ In (f_name f) (rt_pathvars (sr_route r)) ->
       query_values (parse_query (rq_query rq)) (qname f) = [] -> mget saw (f_name f) = mget m0 (f_name f)).
Proof. exact handler_sees_body_elsewhere. Qed.
Print Assumptions C02_handler_sees_body_elsewhere.

(* ---- 3. rejection ------------------------------------------------------------------------------------------ *)

(* why a path binding fails: the named variable's text is empty or does not convert *)
Theorem C02_reject_path_reason : forall fs b vars m v, bind_path fs vars b m = inr v ->
  In v vars /\ exists f, find_field fs v = Some f /\
    (binding_of b v = [] \/ convert (f_kind f) (binding_of b v) = None).
Proof. exact bind_path_reject. Qed.
Print Assumptions C02_reject_path_reason.

(* why a query binding fails: [query_fails q f] = required and absent, or some occurrence that is used
   does not convert *)
Theorem C02_reject_query_reason : forall fs q qfs m n, bind_query_raw fs qfs q m = inr n ->
  exists f, In f qfs /\ f_name f = n /\ query_fails q f.
Proof. exact bind_query_raw_reject. Qed.
Print Assumptions C02_reject_query_reason.

(* in both cases the answer is 400 naming the field; the handler is not invoked *)
Theorem C02_reject_path : forall rs rq p r b m0 f, routed rs rq p r b ->
  raw_start r rq = inl m0 ->
  bind_path (sr_fields r) (rt_pathvars (sr_route r)) b m0 = inr f ->
  raw_handle rs rq = Ok (RRejected f).
Proof. exact raw_handle_reject_path. Qed.
Print Assumptions C02_reject_path.

Theorem C02_reject_query : forall rs rq p r b m0 m1 f, routed rs rq p r b ->
  raw_start r rq = inl m0 ->
  bind_path (sr_fields r) (rt_pathvars (sr_route r)) b m0 = inl m1 ->
  bind_query_raw (sr_fields r) (query_fields (sr_fields r)) (parse_query (rq_query rq)) m1 = inr f ->
  raw_handle rs rq = Ok (RRejected f).
Proof. exact raw_handle_reject_query. Qed.
Print Assumptions C02_reject_query.

(* a body the server cannot read is reported before any URL violation, as field "body" *)
Theorem C02_reject_body : forall rs rq p r b f, routed rs rq p r b ->
  raw_start r rq = inr f -> raw_handle rs rq = Ok (RRejected f) /\ f = s "body".
Proof. exact raw_handle_reject_body. Qed.
Print Assumptions C02_reject_body.

(* conversely: when every path variable converts and every query field is absent-and-optional or
   converts, the request is dispatched, or rejected for its body *)
Theorem C02_url_ok_dispatches : forall rs rq p r b, routed rs rq p r b ->
  url_converts r b (parse_query (rq_query rq)) ->
  (exists saw, raw_handle rs rq = Ok (RDispatched (md_name (sr_md r)) saw)) \/
  raw_handle rs rq = Ok (RRejected (s "body")).
Proof. exact raw_handle_url_ok. Qed.
Print Assumptions C02_url_ok_dispatches.

(* every rejection has one of the three reasons; the body is judged first *)
Theorem C02_rejected_inv : forall rs rq n, raw_handle rs rq = Ok (RRejected n) ->
  exists p r b, routed rs rq p r b /\
    ((n = s "body" /\ rt_body (sr_route r) = true /\
      exists f v, rq_body rq = Some (f, v) /\ bfmt_eqb f (server_fmt (rq_ct rq)) = false) \/
     (exists m0, raw_start r rq = inl m0 /\
        ((In n (rt_pathvars (sr_route r)) /\ exists f, find_field (sr_fields r) n = Some f /\
            (binding_of b n = [] \/ convert (f_kind f) (binding_of b n) = None)) \/
         (exists f, In f (query_fields (sr_fields r)) /\ f_name f = n /\
            query_fails (parse_query (rq_query rq)) f)))).
Proof. exact raw_handle_rejected_inv. Qed.
Print Assumptions C02_rejected_inv.

(* ---- 4. conversion over all strings --------------------------------------------------------------------------- *)

Theorem C02_parse_int_range : forall bits x z, parse_int bits x = Some z ->
  (- 2 ^ Z.of_N (bits - 1) <= z < 2 ^ Z.of_N (bits - 1))%Z.
Proof. exact parse_int_range. Qed.
Print Assumptions C02_parse_int_range.

Theorem C02_parse_uint_range : forall bits x z, parse_uint bits x = Some z ->
  (0 <= z < 2 ^ Z.of_N bits)%Z.
Proof. exact parse_uint_range. Qed.
Print Assumptions C02_parse_uint_range.

(* [int_body x] is x without its optional leading sign *)
Theorem C02_parse_int_syntax : forall bits x z, parse_int bits x = Some z ->
  int_body x <> [] /\ forallb is_digit (int_body x) = true.
Proof. exact parse_int_syntax. Qed.
Print Assumptions C02_parse_int_syntax.

Theorem C02_parse_uint_syntax : forall bits x z, parse_uint bits x = Some z ->
  x <> [] /\ forallb is_digit x = true.
Proof. exact parse_uint_syntax. Qed.
Print Assumptions C02_parse_uint_syntax.

Theorem C02_parse_int_empty : forall bits, parse_int bits [] = None.
Proof. exact parse_int_empty. Qed.
Print Assumptions C02_parse_int_empty.

Theorem C02_parse_uint_empty : forall bits, parse_uint bits [] = None.
Proof. exact parse_uint_empty. Qed.
Print Assumptions C02_parse_uint_empty.

Theorem C02_parse_int_sign_only : forall bits x, int_body x = [] -> parse_int bits x = None.
Proof. exact parse_int_sign_only. Qed.
Print Assumptions C02_parse_int_sign_only.

Theorem C02_parse_int_nondigit : forall bits x,
  forallb is_digit (int_body x) = false -> parse_int bits x = None.
Proof. exact parse_int_nondigit. Qed.
Print Assumptions C02_parse_int_nondigit.

Theorem C02_parse_uint_nondigit : forall bits x, forallb is_digit x = false -> parse_uint bits x = None.
Proof. exact parse_uint_nondigit. Qed.
Print Assumptions C02_parse_uint_nondigit.

Theorem C02_parse_bool_spelling : forall x b, parse_bool x = Some b ->
  In x (if b then bool_true_spellings else bool_false_spellings).
Proof. exact parse_bool_spelling. Qed.
Print Assumptions C02_parse_bool_spelling.

(* whatever the server accepts is a value of the field's type *)
Theorem C02_convert_typed : forall k x v, convert k x = Some v ->
  typed_scalar k v /\ url_kind_ok k = true.
Proof. exact convert_typed. Qed.
Print Assumptions C02_convert_typed.

Theorem C02_convert_all_none : forall k xs, convert_all k xs = None ->
  exists x, In x xs /\ convert k x = None.
Proof. exact convert_all_none. Qed.
Print Assumptions C02_convert_all_none.

(* ---- 5. examples ------------------------------------------------------------------------------------------------ *)

Definition mkf (n : str) (num : Z) (k : kind) (c : card) (q : option query_cfg) : field :=
  {| f_name := n; f_number := num; f_kind := k; f_card := c; f_oneof := None; f_query := q;
     f_unwrap := false; f_int64 := None; f_enumenc := None; f_nullable := None; f_empty := None;
     f_tsfmt := None; f_bytesenc := None; f_oneof_value := None; f_flatten := None;
     f_flatten_prefix := None |}.
Definition mkmsg (n : str) (fs : list field) : message :=
  {| m_name := n; m_path := [n]; m_fields := fs; m_oneofs := [] |}.
Definition mkmd (n inp path : str) (v : nat) : method :=
  {| md_name := n; md_in := inp; md_out := s "Resp"; md_has_cfg := true; md_path := path;
     md_verb := Some v; md_headers := [] |}.

(* PUT /items/{id}?page=  (body: note)     GET /items/{id}?tag=&tag=&q=&limit= *)
Definition put_md := mkmd (s "PutItem") (s "PutReq") (s "/items/{id}") 3.
Definition get_md := mkmd (s "GetItem") (s "GetReq") (s "/items/{id}") 1.
Definition put_msg := mkmsg (s "PutReq")
  [mkf (s "id") 1 KString Singular None;
   mkf (s "page") 2 KInt32 Singular (Some {| q_name := s "page"; q_required := false |});
   mkf (s "note") 3 KString Singular None].
Definition get_msg := mkmsg (s "GetReq")
  [mkf (s "id") 1 KString Singular None;
   mkf (s "tags") 2 KString Repeated (Some {| q_name := s "tag"; q_required := false |});
   mkf (s "q") 3 KString Singular (Some {| q_name := s "q"; q_required := true |});
   mkf (s "limit") 4 KUint32 Singular (Some {| q_name := s "limit"; q_required := false |})].
Definition sv1 : service :=
  {| sv_name := s "Items"; sv_base := []; sv_headers := []; sv_methods := [put_md; get_md] |}.
Definition fl1 : file :=
  {| fl_path := s "a.proto"; fl_package := s "pkg"; fl_gopkg := s "pkg"; fl_generate := true;
     fl_messages := [put_msg; get_msg]; fl_enums := []; fl_services := [sv1] |}.
Definition item_pat : list seg := [SLit (s "items"); SVar (s "id")].
Definition put_route : sroute := sroute_of [fl1] fl1 sv1 put_md item_pat.
Definition get_route : sroute := sroute_of [fl1] fl1 sv1 get_md item_pat.
Definition rs1 : list sroute := [put_route; get_route].

Example C02_routes_are_the_generated_ones : server_routes [fl1] fl1 sv1 = Ok (Some rs1).
Proof. vm_compute. reflexivity. Qed.

(* PUT /items/xyz?page=9 with body {} (repaired): the body is bound first, the URL values on top *)
Definition rq_put : raw_req :=
  {| rq_verb := PUT; rq_path := s "/items/xyz"; rq_query := s "page=9"; rq_ct := CtJSON;
     rq_body := Some (BJson, []) |}.
Definition put_m1 : mval := [(s "id", FS (VStr (s "xyz")))].
Definition put_m2 : mval := [(s "id", FS (VStr (s "xyz"))); (s "page", FS (VInt 9))].

Example C02_body_does_not_reset_url_fields :
  defects_C02 rs1 rq_put = [] /\
  find_route rs1 PUT (split_on slash (s "items/xyz")) = Some (put_route, [(s "id", s "xyz")]) /\
  raw_start put_route rq_put = inl [] /\
  bind_path (sr_fields put_route) (rt_pathvars (sr_route put_route)) [(s "id", s "xyz")] [] = inl put_m1 /\
  bind_query_raw (sr_fields put_route) (query_fields (sr_fields put_route))
     (parse_query (rq_query rq_put)) put_m1 = inl put_m2 /\
  raw_handle rs1 rq_put = Ok (RDispatched (s "PutItem") put_m2).
Proof. vm_compute. repeat split; reflexivity. Qed.

(* a body that mentions the URL-bound fields with other values, and a body-only field: the URL wins on
   id and page, note comes from the body *)
Definition rq_put_conflict : raw_req :=
  {| rq_verb := PUT; rq_path := s "/items/xyz"; rq_query := s "page=9"; rq_ct := CtJSON;
     rq_body := Some (BJson, [(s "id", FS (VStr (s "other"))); (s "page", FS (VInt 1));
                              (s "note", FS (VStr (s "n")))]) |}.
Example C02_url_overrides_body :
  raw_handle rs1 rq_put_conflict
    = Ok (RDispatched (s "PutItem")
            [(s "id", FS (VStr (s "xyz"))); (s "page", FS (VInt 9)); (s "note", FS (VStr (s "n")))]).
Proof. vm_compute. reflexivity. Qed.

(* a body in a format the server does not read for that content type is reported first, even when the
   URL is bad too *)
Definition rq_put_badbody : raw_req :=
  {| rq_verb := PUT; rq_path := s "/items/xyz"; rq_query := s "page=abc"; rq_ct := CtJSON;
     rq_body := Some (BBin, [(s "note", FS (VStr (s "n")))]) |}.
Example C02_body_rejected_first :
  raw_handle rs1 rq_put_badbody = Ok (RRejected (s "body")).
Proof. vm_compute. reflexivity. Qed.

(* the same request without a body *)
Definition rq_put_nobody : raw_req :=
  {| rq_verb := PUT; rq_path := s "/items/xyz"; rq_query := s "page=9"; rq_ct := CtJSON; rq_body := None |}.
Example C02_put_without_body :
  raw_handle rs1 rq_put_nobody = Ok (RDispatched (s "PutItem") put_m2).
Proof. vm_compute. reflexivity. Qed.

(* non-vacuity of C02_url_wins: GET with an escaped path value, a repeated parameter given twice, and the
   required parameter present *)
Definition rq_get : raw_req :=
  {| rq_verb := GET; rq_path := s "/items/a%2Fb"; rq_query := s "tag=x&q=hello+world&tag=y%26z";
     rq_ct := CtJSON; rq_body := None |}.
Definition get_b : list (str * str) := [(s "id", s "a/b")].
Definition get_m1 : mval := [(s "id", FS (VStr (s "a/b")))].
Definition get_m2 : mval :=
  [(s "id", FS (VStr (s "a/b"))); (s "tags", FL [FS (VStr (s "x")); FS (VStr (s "y&z"))]);
   (s "q", FS (VStr (s "hello world")))].

Example C02_url_wins_nonvacuous :
  raw_handle rs1 rq_get = Ok (RDispatched (s "GetItem") get_m2) /\
  rq_path rq_get = slash :: s "items/a%2Fb" /\
  find_route rs1 (rq_verb rq_get) (split_on slash (s "items/a%2Fb")) = Some (get_route, get_b) /\
  raw_start get_route rq_get = inl [] /\
  bind_path (sr_fields get_route) (rt_pathvars (sr_route get_route)) get_b [] = inl get_m1 /\
  bind_query_raw (sr_fields get_route) (query_fields (sr_fields get_route))
     (parse_query (rq_query rq_get)) get_m1 = inl get_m2.
Proof. vm_compute. repeat split; reflexivity. Qed.

(* rejections: a value that does not convert, and a missing required parameter *)
Definition rq_bad : raw_req :=
  {| rq_verb := GET; rq_path := s "/items/a"; rq_query := s "q=1&limit=-3"; rq_ct := CtJSON; rq_body := None |}.
Definition rq_missing : raw_req :=
  {| rq_verb := GET; rq_path := s "/items/a"; rq_query := s "limit=3"; rq_ct := CtJSON; rq_body := None |}.
Example C02_rejections :
  raw_handle rs1 rq_bad = Ok (RRejected (s "limit")) /\ raw_handle rs1 rq_missing = Ok (RRejected (s "q")).
Proof. vm_compute. split; reflexivity. Qed.

(* ---- request messages sharing a short name ------------------------------------------------------------------------
   Users.ListRequest and Posts.ListRequest are different messages with different URL configurations; the
   server's tables are per message (the model looks the input type up by its full name), so each RPC binds and
   demands its OWN query parameters. *)
Definition nested_msg (parent : str) (fs : list field) : message :=
  {| m_name := parent ++ s ".ListRequest"; m_path := [parent; s "ListRequest"]; m_fields := fs; m_oneofs := [] |}.
Definition users_list := nested_msg (s "Users")
  [mkf (s "tenant") 1 KString Singular None;
   mkf (s "page") 2 KInt32 Singular (Some {| q_name := s "page"; q_required := true |})].
Definition posts_list := nested_msg (s "Posts")
  [mkf (s "tenant") 1 KString Singular None;
   mkf (s "author") 2 KString Singular (Some {| q_name := s "author"; q_required := false |});
   mkf (s "limit") 3 KUint32 Singular (Some {| q_name := s "limit"; q_required := true |});
   mkf (s "page") 4 KString Singular (Some {| q_name := s "p"; q_required := false |})].
Definition list_users_md := mkmd (s "ListUsers") (s "Users.ListRequest") (s "/t/{tenant}/users") 1.
Definition list_posts_md := mkmd (s "ListPosts") (s "Posts.ListRequest") (s "/t/{tenant}/posts") 1.
Definition sv_same : service :=
  {| sv_name := s "Dir"; sv_base := []; sv_headers := []; sv_methods := [list_users_md; list_posts_md] |}.
Definition fl_same : file :=
  {| fl_path := s "a.proto"; fl_package := []; fl_gopkg := s "pkg"; fl_generate := true;
     fl_messages := [users_list; posts_list]; fl_enums := []; fl_services := [sv_same] |}.
Definition rs_same : list sroute :=
  match server_routes [fl_same] fl_same sv_same with Ok (Some rs) => rs | _ => [] end.
Definition rq_same (p q : str) : raw_req :=
  {| rq_verb := GET; rq_path := p; rq_query := q; rq_ct := CtJSON; rq_body := None |}.

Example C02_same_short_name_messages :
  List.length rs_same = 2%nat /\
  (* the later message's own parameters are bound ... *)
  raw_handle rs_same (rq_same (s "/t/acme/posts") (s "author=ann&limit=5&p=x&page=7"))
    = Ok (RDispatched (s "ListPosts")
            [(s "tenant", FS (VStr (s "acme"))); (s "author", FS (VStr (s "ann")));
             (s "limit", FS (VInt 5)); (s "page", FS (VStr (s "x")))]) /\
  (* ... and demanded / converted by its own kinds, not the earlier message's *)
  raw_handle rs_same (rq_same (s "/t/acme/posts") (s "author=ann&page=3")) = Ok (RRejected (s "limit")) /\
  raw_handle rs_same (rq_same (s "/t/acme/posts") (s "limit=abc")) = Ok (RRejected (s "limit")) /\
  raw_handle rs_same (rq_same (s "/t/acme/users") (s "page=abc&limit=1")) = Ok (RRejected (s "page")) /\
  raw_handle rs_same (rq_same (s "/t/acme/users") (s "page=3&author=ann"))
    = Ok (RDispatched (s "ListUsers") [(s "tenant", FS (VStr (s "acme"))); (s "page", FS (VInt 3))]).
Proof. vm_compute. repeat split; reflexivity. Qed.
