(* C02 — placeholder until the proofs land. *)
From Sebuf Require Import GoRtRaw.
Example C02_placeholder : True. Proof. exact I. Qed.
