(* C20 — the optional mock server builds and answers with examples (theories/Mock.v).
   [rpc_walks sc ex ft = Some ws]: the model followed every response type (no well-known type other
   than Timestamp; recursive types are fine since 1e0a1c9: the walk carries the set of message types
   being filled and leaves a field of such a type unset); ws pairs each RPC with the assignments the generator prints for it,
   their build obligations, and per response leaf the SET of values the random selectors can return. *)
From Sebuf Require Import Text Json Schema Num Emit Mock.
From SebufProofs Require Import EmitFacts MockFacts.

(* Outside the defect classes the mock file type-checks together with the rest of the package
   (go-http + go-client output): every printed assignment `v.F = <selector>` has the type of F. *)
Theorem C20_builds : forall sc ex ft ws,
  accepted sc = true -> rpc_walks sc ex ft = Some ws -> defects_C20 sc ws = [] -> mock_builds sc ws = true.
Proof. exact mock_builds_lemma. Qed.
Print Assumptions C20_builds.

(* ... and a response field that declares examples can only take one of them, parsed to its type
   (strconv.ParseInt / ParseBool as modelled in Num.v; ParseFloat through the table [ft]); the set
   of values it can take is never empty. *)
Theorem C20_examples_used : forall sc ex ft ws,
  rpc_walks sc ex ft = Some ws -> mock_tags ws = [] ->
  forall rpc w l, In (rpc, w) ws -> In l (w_leaves w) -> lf_decl l <> [] ->
  lf_values l <> [] /\ forall v, In v (lf_values l) -> exists e, In e (lf_decl l) /\ parse_as ft (lf_kind l) e = Some v.
Proof. exact examples_used_lemma. Qed.
Print Assumptions C20_examples_used.

(* The guarded walk (1e0a1c9) finishes on EVERY closed schema, recursive or not, within depth
   |messages|+1: the path of message types being filled is duplicate-free and drawn from the schema. *)
Theorem C20_guarded_walk_terminates : forall sc fl ex ft, closed sc ->
  forall fuel path m p, In m (all_messages sc) -> NoDup path -> incl path (msg_names sc) -> ~ In (m_name m) path ->
    List.length (msg_names sc) < fuel + List.length path ->
    mock_walk fuel sc fl ex ft path m p <> None.
Proof. exact mock_walk_terminates. Qed.
Print Assumptions C20_guarded_walk_terminates.
Theorem C20_rpc_walk_terminates : forall sc ex ft fl md m,
  closed sc -> output_msg sc md = Some m -> rpc_walk sc ex ft fl md <> None.
Proof. exact rpc_walk_terminates. Qed.
Print Assumptions C20_rpc_walk_terminates.

(* recursive responses: the mock builds, fills the scalar fields and leaves every field whose type is
   being filled unset (singular, optional, repeated) or its map empty *)
Example C20_self_recursive_response :
  case_defects self_recursive_case = Some [] /\ case_builds self_recursive_case = Some true /\
  case_present self_recursive_case = Some [] /\
  case_leaf self_recursive_case "v" = Some [s "a"; s "b"] /\ case_leaf self_recursive_case "n" = Some [s "42"] /\
  case_leaf self_recursive_case "next.v" = None /\ case_leaf self_recursive_case "by[sample_key].v" = None.
Proof. exact self_recursive_facts. Qed.
Example C20_mutually_recursive_response :
  case_defects mutual_case = Some [] /\ case_builds mutual_case = Some true /\
  case_present mutual_case = Some [s "b"; s "b.c"] /\
  case_leaf mutual_case "b.n" = Some [s "42"] /\ case_leaf mutual_case "b.c.ok" = Some [s "true"] /\
  case_leaf mutual_case "b.a.title" = None.
Proof. exact mutual_facts. Qed.

(* What the mock prints for an RPC depends on the file and the response type only: RPCs of one service
   or of several services of the file that answer with the same message get the same assignments,
   obligations, value sets and defect tags. *)
Theorem C20_same_response_same_walk : forall sc ex ft fl md1 md2,
  md_out md1 = md_out md2 -> rpc_walk sc ex ft fl md1 = rpc_walk sc ex ft fl md2.
Proof. exact same_response_same_walk. Qed.
Print Assumptions C20_same_response_same_walk.
(* three services in one file sharing response messages (User: four RPCs in three services): the mock
   builds with the rest of the package and every RPC answers with the declared examples *)
Example C20_services_sharing_a_response :
  let '(sc, _, _) := shared_response_case in accepted sc = true /\
  case_defects shared_response_case = Some [] /\ case_builds shared_response_case = Some true /\
  option_map (@List.length _) (case_walks shared_response_case) = Some 8 /\
  case_rpc_leaf shared_response_case "UserService.GetUser" "name" = Some [s "Ann"; s "Bob"] /\
  case_rpc_leaf shared_response_case "UserService.FindUser" "name" = Some [s "Ann"; s "Bob"] /\
  case_rpc_leaf shared_response_case "AdminService.LookupUser" "name" = Some [s "Ann"; s "Bob"] /\
  case_rpc_leaf shared_response_case "AuditService.LastUser" "age" = Some [s "42"] /\
  case_rpc_leaf shared_response_case "AdminService.Stat" "user.name" = Some [s "Ann"; s "Bob"] /\
  case_rpc_leaf shared_response_case "AuditService.Audit" "by[sample_key].name" = Some [s "Ann"; s "Bob"].
Proof. exact shared_response_facts. Qed.

Example C20_nonvacuous :
  let '(sc, _, _) := good_mock in accepted sc = true /\
  case_defects good_mock = Some [] /\ case_builds good_mock = Some true /\
  case_leaf good_mock "title" = Some [s "first"; s "second"] /\
  case_leaf good_mock "count" = Some [s "-3"; s "7"] /\
  case_leaf good_mock "ok" = Some [s "false"; s "true"] /\
  case_leaf good_mock "ratio" = Some [s "1.5"] /\
  case_leaf good_mock "inner.label" = Some [s "alpha"] /\
  case_leaf good_mock "by_key[sample_key].hits" = Some [s "42"] /\
  case_leaf good_mock "counts[1]" = Some [s "42"].
Proof. exact good_mock_facts. Qed.

(* refutations: the mock does not build ... *)
Theorem C20_refuted_mock_narrow_number : exists c, build_refuted c "mock-narrow-number".
Proof. eexists. exact w_mock_narrow_int32. Qed.
Theorem C20_refuted_mock_narrow_number_float : exists c, build_refuted c "mock-narrow-number".
Proof. eexists. exact w_mock_narrow_float. Qed.
Theorem C20_refuted_mock_timestamp_nanos : exists c, build_refuted c "mock-timestamp-nanos".
Proof. eexists. exact w_mock_timestamp. Qed.
Theorem C20_refuted_mock_optional_scalar : exists c, build_refuted c "mock-optional-scalar".
Proof. eexists. exact w_mock_optional. Qed.
Theorem C20_refuted_mock_repeated_scalar : exists c, build_refuted c "mock-repeated-scalar".
Proof. eexists. exact w_mock_repeated. Qed.
Theorem C20_refuted_mock_oneof_member : exists c, build_refuted c "mock-oneof-member".
Proof. eexists. exact w_mock_oneof. Qed.
Theorem C20_refuted_mock_map_value_kind : exists c, build_refuted c "mock-map-value-kind".
Proof. eexists. exact w_mock_map_enum. Qed.
(* ... or builds and answers with something else than the declared examples *)
Theorem C20_refuted_mock_examples_not_found :
  case_defects nested_case = Some [s "mock-examples-not-found"] /\ case_builds nested_case = Some true /\
  case_leaf nested_case "inner.label" = Some [s "example string"].
Proof. exact w_mock_examples_not_found. Qed.
Theorem C20_refuted_mock_examples_of_homonym :
  case_defects homonym_case = Some [s "mock-examples-of-homonym"] /\ case_builds homonym_case = Some true /\
  case_leaf homonym_case "inner.label" = Some [s "top1"; s "top2"].
Proof. exact w_mock_examples_of_homonym. Qed.
Theorem C20_refuted_mock_unparsable_example :
  case_defects unparsable_case = Some [s "mock-unparsable-example"] /\ case_builds unparsable_case = Some true /\
  case_leaf unparsable_case "count" = Some [s "12"; s "42"].
Proof. exact w_mock_unparsable. Qed.
Theorem C20_refuted_mock_examples_ignored_kind :
  case_defects ignored_case = Some [s "mock-examples-ignored-kind"] /\ case_builds ignored_case = Some true /\
  case_leaf ignored_case "u" = None.
Proof. exact w_mock_ignored. Qed.
