(* C16 — every plugin terminates with an answer: the traversal logic. *)
From Sebuf Require Import Text Traverse.
From SebufProofs Require Import TraverseFacts.

(* The visited-set guarded walks (TS type collection, OpenAPI schema collection) finish on every
   finite message graph, cyclic or not, within depth |g|+1. *)
Theorem C16_visited_terminates : forall g n, wf_graph g -> n < List.length g ->
  collect (S (List.length g)) g [] n <> None.
Proof. exact guarded_walk_terminates. Qed.
Print Assumptions C16_visited_terminates.

(* The mock emitter's walk finishes on response types whose followed edges are acyclic ... *)
Theorem C16_mock_acyclic : forall g (rank : nat -> nat),
  (forall n m, In (m, true) (edges_of g n) -> rank m < rank n) ->
  forall fuel n, rank n < fuel -> exists k, mock_assign fuel g n = Some k.
Proof. exact mock_ranked_terminates. Qed.
Print Assumptions C16_mock_acyclic.

(* ... and never finishes (for any amount of fuel) once the response type reaches a cycle of
   singular message fields / message-valued maps: the property is refuted for generate_mock=true. *)
Theorem C16_mock_diverges_refuted : forall g (C : list nat),
  (forall n, In n C -> exists m, In m C /\ In (m, true) (edges_of g n)) ->
  forall fuel n, In n C -> mock_assign fuel g n = None.
Proof. exact mock_cycle_diverges. Qed.
Print Assumptions C16_mock_diverges_refuted.

Theorem C16_mock_reaches_cycle_refuted : forall g n m,
  In (m, true) (edges_of g n) -> (forall fuel, mock_assign fuel g m = None) ->
  forall fuel, mock_assign fuel g n = None.
Proof. exact mock_reaches_diverging. Qed.
Print Assumptions C16_mock_reaches_cycle_refuted.

(* message Node { Node next = 1; repeated Node kids = 2; } and a response wrapping it *)
Definition ex_graph : graph := [ {| mn_edges := [(1, true)] |}; {| mn_edges := [(1, true); (1, false)] |} ].
Example C16_nonvacuous :
  wf_graph ex_graph /\ collect 3 ex_graph [] 0 = Some [1; 0] /\ mock_assign 50 ex_graph 0 = None.
Proof.
  split; [|split; vm_compute; reflexivity].
  intros n t b. destruct n as [|[|n]]; cbn; intros H.
  - destruct H as [H|[]]. inversion H. cbn. lia.
  - destruct H as [H|[H|[]]]; inversion H; cbn; lia.
  - destruct n; cbn in H; contradiction.
Qed.
