(* C16 — every plugin terminates with an answer: the traversal logic. *)
From Sebuf Require Import Text Traverse.
From SebufProofs Require Import TraverseFacts.

(* The visited-set guarded walks (TS type collection, OpenAPI schema collection) finish on every
   finite message graph, cyclic or not, within depth |g|+1. *)
Theorem C16_visited_terminates : forall g n, wf_graph g -> n < List.length g ->
  collect (S (List.length g)) g [] n <> None.
Proof. exact guarded_walk_terminates. Qed.
Print Assumptions C16_visited_terminates.

(* The mock emitter's walk (generate_mock=true), which stops at message types already on the path
   being filled, finishes on every finite graph, cyclic or not, within depth |g|+1. *)
Theorem C16_mock_terminates : forall g n, wf_graph g -> n < List.length g ->
  mock_path (S (List.length g)) g [] n <> None.
Proof. exact mock_path_terminates. Qed.
Print Assumptions C16_mock_terminates.

(* History: before the repair the walk had no path set; that walk provably never terminates on a
   cycle of followed edges (this is the defect that was fixed). *)
Theorem C16_unguarded_mock_diverged : forall g (C : list nat),
  (forall n, In n C -> exists m, In m C /\ In (m, true) (edges_of g n)) ->
  forall fuel n, In n C -> mock_assign fuel g n = None.
Proof. exact mock_cycle_diverges. Qed.
Print Assumptions C16_unguarded_mock_diverged.

(* message Node { Node next = 1; repeated Node kids = 2; } and a response wrapping it *)
Definition ex_graph : graph := [ {| mn_edges := [(1, true)] |}; {| mn_edges := [(1, true); (1, false)] |} ].
Example C16_nonvacuous :
  wf_graph ex_graph /\ collect 3 ex_graph [] 0 = Some [1; 0] /\ mock_path 3 ex_graph [] 0 = Some 3 /\
  mock_assign 50 ex_graph 0 = None.
Proof.
  split; [|repeat split; vm_compute; reflexivity].
  intros n t b. destruct n as [|[|n]]; cbn; intros H.
  - destruct H as [H|[]]. inversion H. cbn. lia.
  - destruct H as [H|[H|[]]]; inversion H; cbn; lia.
  - destruct n; cbn in H; contradiction.
Qed.
