(* C16 — every plugin terminates with an answer: the traversal logic. *)
From Sebuf Require Import Text Traverse.
From SebufProofs Require Import TraverseFacts.

(* The visited-set guarded walks (TS type collection, OpenAPI schema collection) finish on every
   finite message graph, cyclic or not, within depth |g|+1. *)
Theorem C16_visited_terminates : forall g n, wf_graph g -> n < List.length g ->
  collect (S (List.length g)) g [] n <> None.
Proof. exact guarded_walk_terminates. Qed.
Print Assumptions C16_visited_terminates.

(* The mock emitter's walk (generate_mock=true), which stops at message types already on the path
   being filled, finishes on every finite graph, cyclic or not, within depth |g|+1. *)
Theorem C16_mock_terminates : forall g n, wf_graph g -> n < List.length g ->
  mock_path (S (List.length g)) g [] n <> None.
Proof. exact mock_path_terminates. Qed.
Print Assumptions C16_mock_terminates.

(* History: before the repair the walk had no path set; that walk provably never terminates on a
   cycle of followed edges (this is the defect that was fixed). *)
Theorem C16_unguarded_mock_diverged : forall g (C : list nat),
  (forall n, In n C -> exists m, In m C /\ In (m, true) (edges_of g n)) ->
  forall fuel n, In n C -> mock_assign fuel g n = None.
Proof. exact mock_cycle_diverges. Qed.
Print Assumptions C16_unguarded_mock_diverged.

(* message Node { Node next = 1; repeated Node kids = 2; } and a response wrapping it *)
Definition ex_graph : graph := [ {| mn_edges := [(1, true)] |}; {| mn_edges := [(1, true); (1, false)] |} ].
Example C16_nonvacuous :
  wf_graph ex_graph /\ collect 3 ex_graph [] 0 = Some [1; 0] /\ mock_path 3 ex_graph [] 0 = Some 3 /\
  mock_assign 50 ex_graph 0 = None.
Proof.
  split; [|repeat split; vm_compute; reflexivity].
  intros n t b. destruct n as [|[|n]]; cbn; intros H.
  - destruct H as [H|[]]. inversion H. cbn. lia.
  - destruct H as [H|[H|[]]]; inversion H; cbn; lia.
  - destruct n; cbn in H; contradiction.
Qed.

From Sebuf Require Import Json.
(* ---- known finding mock-acyclic-path-blowup --------------------------------------------------- *)
(* The path set makes the mock walk terminate (C16_mock_terminates) but not cheap: a message type
   reached through two fields is filled twice, with everything below it.  On the acyclic layered
   graph of width 2 and depth d (d+1 message types; theories/Traverse.v dag2) the walk — which
   terminates, within the fuel of C16_mock_terminates — emits exactly 2^(d+1) - 2 message-field
   assignments: "bounded" only by a bound exponential in the size of the request. *)
Theorem C16_mock_acyclic_exponential : forall d, exists k,
  mock_path (S (List.length (dag2 d))) (dag2 d) [] 0 = Some k /\ k + 2 = 2 ^ (S d).
Proof. exact mock_path_dag2. Qed.
Print Assumptions C16_mock_acyclic_exponential.

Theorem C16_mock_acyclic_at_least_2_pow_depth : forall d k, 1 <= d ->
  mock_path (S (List.length (dag2 d))) (dag2 d) [] 0 = Some k -> 2 ^ d <= k.
Proof. exact mock_path_dag2_exponential. Qed.
Print Assumptions C16_mock_acyclic_at_least_2_pow_depth.

(* ... whereas the visited-set walk of the other plugins touches each of the d+1 messages once *)
Example C16_guarded_linear_on_dag : collect 42 (dag2 40) [] 0 = Some (rev (seq 0 41)).
Proof. vm_compute. reflexivity. Qed.

(* the step-budgeted evaluation used by the correspondence check agrees with the walk below the
   budget and reports an overrun above it *)
Theorem C16_mock_cost_spec : forall lim g fuel path n k acc,
  mock_path fuel g path n = Some k ->
  ((acc + N.of_nat k <= lim)%N -> mock_cost fuel lim g path n acc = (acc + N.of_nat k)%N) /\
  ((lim < acc + N.of_nat k)%N -> (lim < mock_cost fuel lim g path n acc)%N).
Proof. exact mock_cost_spec. Qed.
Print Assumptions C16_mock_cost_spec.

(* refutation of "bounded time" for the tag: 25 message types, acyclic, and the walk is over the
   budget of 2^15 assignments (it would emit 2^25 - 2); depth 10 is within it *)
Example C16_refuted_mock_acyclic_path_blowup :
  wf_graph (dag2 24) /\ mock_over_budget (dag2 24) 0 = true /\ mock_over_budget (dag2 10) 0 = false /\
  predict_C16b (dag2 24, [0], true) =
    JObj [(s "tags", JArr [JStr (s "mock-acyclic-path-blowup")]); (s "mock_failure", JStr (s "budget"));
          (s "mock_walk_terminates", JBool false)].
Proof.
  split; [exact (dag2_wf 24)|]. split; [vm_compute; reflexivity|]. split; vm_compute; reflexivity.
Qed.
