(* C15 — generation is a pure, order-independent function of the definitions (theories/Order.v). *)
From Sebuf Require Import Text Json Order.
From SebufProofs Require Import OrderFacts.

(* Go map iteration order does not reach the output: whatever order the entries of a key-unique
   collection arrive in, sorting by key gives the same slice *)
Theorem C15_map_order : forall (A : Type) (l l' : list (str * A)),
  Permutation l l' -> NoDup (map fst l) -> sort_by_key l = sort_by_key l'.
Proof. exact sort_by_key_perm. Qed.
Print Assumptions C15_map_order.

(* The same for ANY comparison of keys that is total, transitive and antisymmetric.  Antisymmetry is
   what makes the output a function of the collection: it is used in exactly one place, the exchange
   lemma insert_comm (two different keys cannot each be below the other). *)
Theorem C15_sort_order_independent_generic : forall (A : Type) (le : str -> str -> bool),
  (forall a b, le a b = true \/ le b a = true) ->
  (forall a b c, le a b = true -> le b c = true -> le a c = true) ->
  (forall a b, le a b = true -> le b a = true -> a = b) ->
  forall l l' : list (str * A), Permutation l l' -> NoDup (map fst l) -> sort_with le l = sort_with le l'.
Proof. exact sort_with_perm. Qed.
Print Assumptions C15_sort_order_independent_generic.

(* ... and the hypothesis cannot be dropped: under a coarser key (names compared without regard to
   case: total, transitive, not antisymmetric) two different names that are equal up to case come out
   in arrival order, i.e. in the order the Go map happened to iterate *)
Theorem C15_coarse_key_refuted :
  (forall a b, str_le_ci a b = true \/ str_le_ci b a = true) /\
  (forall a b c, str_le_ci a b = true -> str_le_ci b c = true -> str_le_ci a c = true) /\
  (let l1 := [(s "X-Request-Id", 1%nat); (s "X-Request-ID", 2%nat); (s "Accept", 3%nat)] in
   let l2 := [(s "X-Request-ID", 2%nat); (s "X-Request-Id", 1%nat); (s "Accept", 3%nat)] in
   Permutation l1 l2 /\ NoDup (map fst l1) /\
   sort_with str_le_ci l1 <> sort_with str_le_ci l2 /\ sort_by_key l1 = sort_by_key l2).
Proof. exact (conj str_le_ci_total (conj str_le_ci_trans coarse_key_sort_depends_on_arrival_order)). Qed.

(* the order lemmas the sort relies on, for all byte strings *)
Theorem C15_byte_order_total_antisymmetric_transitive :
  (forall a b, str_le a b = true \/ str_le b a = true) /\
  (forall a b, str_le a b = true -> str_le b a = true -> a = b) /\
  (forall a b c, str_le a b = true -> str_le b c = true -> str_le a c = true).
Proof. exact (conj str_le_total (conj str_le_antisym str_le_trans)). Qed.
Print Assumptions C15_byte_order_total_antisymmetric_transitive.

(* annotations.CombineHeaders: the merged header list is the same for every iteration order *)
Theorem C15_combine_headers : forall (A : Type) (pi pi' : list (str * A) -> list (str * A)) svc mth,
  (forall m, Permutation m (pi m)) -> (forall m, Permutation m (pi' m)) ->
  combine_headers pi svc mth = combine_headers pi' svc mth.
Proof. exact combine_headers_order_independent. Qed.
Print Assumptions C15_combine_headers.

(* the global unwrap table + its fallback = the unwrap info of the resolved message *)
Theorem C15_unwrap_info_is_resolved : forall r n, wf_request r ->
  unwrap_info r n = match resolve r n with Some m => om_unwrap m | None => None end.
Proof. exact unwrap_info_is_resolved. Qed.
Print Assumptions C15_unwrap_info_is_resolved.

(* same descriptor pool, any file_to_generate: permuted, a single file, further files generated too *)
Theorem C15_perm_and_single_vs_multi : forall r1 r2 f,
  wf_request r1 -> rq_files r1 = rq_files r2 -> generate r1 f = generate r2 f.
Proof. exact generate_independent_of_gen_set. Qed.
Print Assumptions C15_perm_and_single_vs_multi.

(* files added anywhere to the request (generated or not) that f does not refer to *)
Theorem C15_unrelated : forall r1 r2 f,
  subl (rq_files r1) (rq_files r2) -> wf_request r2 -> closed_in r1 f -> generate r1 f = generate r2 f.
Proof. exact generate_ignores_unrelated. Qed.
Print Assumptions C15_unrelated.

(* the suspicion settled: with the table alone (no fallback) A's output depends on whether b.proto
   is generated in the same invocation; with the fallback (the code as it is) it does not *)
Theorem C15_single_vs_multi_table_only_refuted :
  (out_unwrap (generate_with unwrap_info_table_only r_single a_file) = []) /\
  (out_unwrap (generate_with unwrap_info_table_only r_multi a_file) = [(s "p.A", s "p.B", 7%nat)]) /\
  (generate r_single a_file = generate r_multi a_file) /\
  (out_unwrap (generate r_single a_file) = [(s "p.A", s "p.B", 7%nat)]).
Proof. exact table_only_depends_on_gen_set. Qed.

Example C15_nonvacuous :
  (wf_request r_multi /\ closed_in r_multi a_file) /\
  sort_by_key [(s "X-Trace", 1%nat); (s "Accept", 2%nat); (s "X-API-Key", 3%nat)] =
  sort_by_key [(s "X-API-Key", 3%nat); (s "X-Trace", 1%nat); (s "Accept", 2%nat)].
Proof. split; [exact r_multi_wf|reflexivity]. Qed.
