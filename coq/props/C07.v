(* C07 — Wire JSON and handler inputs inhabit the generated TypeScript types.
   Only statements, [exact <lemma>], Print Assumptions, and examples checked by computation.
   Model: theories/TsTypes.v (declarations both TS plugins emit, inhabitation, proto3-JSON of the plain fragment). *)
From Sebuf Require Import Text Json Schema Value Num TsTypes.
From SebufProofs Require Import TsTypesFacts.

(* ---- A. the plain fragment: scalars, bytes, enums, nested and recursive messages, repeated fields, maps ---- *)

(* the proto3-JSON form of every well-typed value in which each implicit-presence field of each reachable
   message is populated ([wt]) is a value of the TS type of its position, at any depth *)
Theorem C07_value_inhabits : forall sc e, env_ok sc e -> forall f k v j,
  wt f sc k v = true -> pj_val f sc k v = Ok j -> inhabits (S (S f)) e (vty k v) j = true.
Proof. exact val_inhabits. Qed.
Print Assumptions C07_value_inhabits.

(* responses and contract-form requests: a message value against the interface named after its message *)
Theorem C07_response_inhabits : forall sc e tn m j,
  env_ok sc e -> wt pj_fuel sc (KMessage tn) (FM m) = true -> pj_of_mval sc tn m = Ok j ->
  inhabits (S (S pj_fuel)) e (YRef (last_seg tn)) j = true.
Proof. exact response_inhabits. Qed.
Print Assumptions C07_response_inhabits.

(* [env_ok] is met by declaring every message and enum under its short name, as the generators do,
   whenever the short names are pairwise distinct (otherwise: C07_refuted_short_name_merge) *)
Theorem C07_declared_env_ok : forall sc,
  nodup_str (map fst (declared_env sc)) = true -> env_ok sc (declared_env sc).
Proof. exact declared_env_ok. Qed.
Print Assumptions C07_declared_env_ok.

(* in the plain fragment a field's declared type depends on its kind and cardinality only *)
Theorem C07_field_type_plain : forall sc f v,
  no_annot f = true -> is_timestamp (f_kind f) = false -> card_fits (f_card f) v = true ->
  match f_kind f with KMessage tn => find_unwrap_list sc tn = None | _ => True end ->
  field_ty sc f = vty (f_kind f) v.
Proof. exact field_ty_plain. Qed.
Print Assumptions C07_field_type_plain.

(* ts-client and ts-server print the declarations through the same functions (checked textually on the
   emitted modules by every run of the correspondence check) *)
Theorem C07_same_decls : forall sc fl, ts_client_decls sc fl = ts_server_decls sc fl.
Proof. exact same_decls. Qed.
Print Assumptions C07_same_decls.

(* ---- B. a schema that exercises the theorem ---------------------------------------------------------------- *)
Definition mkf (n : str) (num : Z) (k : kind) (c : card) (o : option str) : field :=
  {| f_name := n; f_number := num; f_kind := k; f_card := c; f_oneof := o; f_query := None;
     f_unwrap := false; f_int64 := None; f_enumenc := None; f_nullable := None; f_empty := None;
     f_tsfmt := None; f_bytesenc := None; f_oneof_value := None; f_flatten := None; f_flatten_prefix := None |}.
Definition mkmsg (n : str) (path : list str) (fs : list field) (os : list oneof) : message :=
  {| m_name := n; m_path := path; m_fields := fs; m_oneofs := os |}.
Definition color : enum :=
  {| e_name := s "p.Color"; e_values := [ {| ev_name := s "COLOR_UNSPECIFIED"; ev_number := 0; ev_custom := None |};
                                          {| ev_name := s "COLOR_RED"; ev_number := 1; ev_custom := None |} ] |}.
Definition node_msg := mkmsg (s "p.Node") [s "Node"]
  [mkf (s "label") 1 KString Singular None; mkf (s "big_num") 2 KInt64 Singular None;
   mkf (s "kids") 3 (KMessage (s "p.Node")) Repeated None; mkf (s "parent") 4 (KMessage (s "p.Node")) Singular None] [].
Definition doc_msg := mkmsg (s "p.Doc") [s "Doc"]
  [mkf (s "id") 1 KString Singular None; mkf (s "count") 2 KInt32 Singular None; mkf (s "ok") 3 KBool Singular None;
   mkf (s "raw") 4 KBytes Singular None; mkf (s "color") 5 (KEnum (s "p.Color")) Singular None;
   mkf (s "root") 6 (KMessage (s "p.Node")) Singular None; mkf (s "tags") 7 KString Repeated None;
   mkf (s "by_key") 8 (KMessage (s "p.Node")) (MapOf KString) None; mkf (s "counts") 9 KInt64 (MapOf KInt32) None;
   mkf (s "opt_n") 10 KInt32 Optional None; mkf (s "colors") 11 (KEnum (s "p.Color")) Repeated None] [].
Definition echo_md : method :=
  {| md_name := s "EchoDoc"; md_in := s "p.Doc"; md_out := s "p.Doc"; md_has_cfg := true; md_path := s "/doc";
     md_verb := Some 2%nat; md_headers := [] |}.
Definition fl1 : file :=
  {| fl_path := s "a.proto"; fl_package := s "p"; fl_gopkg := s "p"; fl_generate := true;
     fl_messages := [doc_msg; node_msg]; fl_enums := [color];
     fl_services := [ {| sv_name := s "Docs"; sv_base := s "/api"; sv_headers := []; sv_methods := [echo_md] |} ] |}.
Definition sc1 : schema := [fl1].

Definition leaf (l : str) : fval := FM [(s "label", FS (VStr l)); (s "big_num", FS (VInt 9007199254740993)); (s "kids", FL [])].
Definition doc_val : mval :=
  [(s "id", FS (VStr (s "d1"))); (s "count", FS (VInt (-3))); (s "ok", FS (VBool true)); (s "raw", FS (VBytes [ch 251; ch 255]));
   (s "color", FS (VEnum 1));
   (s "root", FM [(s "label", FS (VStr (s "r"))); (s "big_num", FS (VInt 1)); (s "kids", FL [leaf (s "a"); leaf (s "b")]); (s "parent", leaf (s "p"))]);
   (s "tags", FL [FS (VStr (s "x")); FS (VStr [])]);
   (s "by_key", FMap [(VStr (s "k"), leaf (s "m"))]); (s "counts", FMap [(VInt 7, FS (VInt (-1)))]);
   (s "colors", FL [FS (VEnum 0)])].

(* the environment the theorem needs IS the one the modelled generators produce for this file *)
Example C07_nonvacuous :
  (exists ds, ts_decls sc1 fl1 = Ok ds /\ env_of ds = declared_env sc1) /\
  nodup_str (map fst (declared_env sc1)) = true /\
  wt pj_fuel sc1 (KMessage (s "p.Doc")) (FM doc_val) = true /\
  (exists j, pj_of_mval sc1 (s "p.Doc") doc_val = Ok j /\
             inhabits (S (S pj_fuel)) (declared_env sc1) (YRef (s "Doc")) j = true /\
             field_or_null (s "raw") j = JStr (s "+/8=") /\
             field_or_null (s "counts") j = JObj [(s "7", JStr (s "-1"))]).
Proof.
  split; [eexists; split; vm_compute; reflexivity|].
  split; [vm_compute; reflexivity|]. split; [vm_compute; reflexivity|].
  eexists. split; [vm_compute; reflexivity|]. split; [vm_compute; reflexivity|]. split; vm_compute; reflexivity.
Qed.

(* ---- C. refutations: each class on a concrete wire value ------------------------------------------------------ *)
Definition inh (sc : schema) (fl : file) (t : tsty) (j : json) : bool :=
  match ts_decls sc fl with Ok ds => inhabits inhabit_fuel (env_of ds) t j | Unmodelled _ => false end.
Definition pj (sc : schema) (tn : str) (m : mval) : json :=
  match pj_of_mval sc tn m with Ok j => j | Unmodelled _ => JNull end.
Definition resp := s "inh-response".

(* {} is what the Go server writes for the default message; the interface demands every scalar property *)
Example C07_refuted_implicit_presence :
  defects_C07 sc1 fl1 resp (s "p.Doc") [] [] = [C07ImplicitPresenceOmitted] /\
  pj sc1 (s "p.Doc") [] = JObj [] /\ inh sc1 fl1 (YRef (s "Doc")) (JObj []) = false /\
  (* one omitted default is enough *)
  inh sc1 fl1 (YRef (s "Node")) (pj sc1 (s "p.Node") [(s "label", FS (VStr (s "x"))); (s "kids", FL [])]) = false.
Proof. vm_compute. repeat split; reflexivity. Qed.

(* an enum number without a name *)
Example C07_refuted_open_enum :
  defects_C07 sc1 fl1 resp (s "p.Doc") []
    (map (fun e => if str_eqb (fst e) (s "colors") then (s "colors", FL [FS (VEnum 99)]) else e) doc_val) = [C07OpenEnumNumber] /\
  inh sc1 fl1 (YRef (s "Color")) (JNum 99) = false /\ inh sc1 fl1 (YRef (s "Color")) (JStr (s "COLOR_RED")) = true.
Proof. vm_compute. repeat split; reflexivity. Qed.

(* NaN is written as the string "NaN" into a property typed number *)
Example C07_refuted_non_finite :
  inhabits 8 [] YNumber (JStr (s "NaN")) = false /\ nonfinite KDouble 9221120237041090560 = true.
Proof. vm_compute. split; reflexivity. Qed.

(* plain oneof: scalar members are required properties, at most one is on the wire *)
Definition pick_msg := mkmsg (s "p.Pick") [s "Pick"]
  [mkf (s "id") 1 KString Singular None; mkf (s "a_text") 2 KString Singular (Some (s "pick"));
   mkf (s "a_num") 3 KInt64 Singular (Some (s "pick")); mkf (s "a_node") 4 (KMessage (s "p.Node")) Singular (Some (s "pick"))]
  [ {| o_name := s "pick"; o_has_cfg := false; o_discriminator := []; o_flatten := false |} ].
Definition mk_echo (m : message) (extra : list message) (es : list enum) : file :=
  {| fl_path := s "a.proto"; fl_package := s "p"; fl_gopkg := s "p"; fl_generate := true;
     fl_messages := m :: extra; fl_enums := es;
     fl_services := [ {| sv_name := s "Svc"; sv_base := s "/api"; sv_headers := [];
                         sv_methods := [ {| md_name := s "Echo"; md_in := m_name m; md_out := m_name m; md_has_cfg := true;
                                            md_path := s "/e"; md_verb := Some 2%nat; md_headers := [] |} ] |} ] |}.
Definition fl_pick := mk_echo pick_msg [node_msg] [].
Definition pick_val : mval := [(s "id", FS (VStr (s "i"))); (s "a_text", FS (VStr (s "t")))].
Example C07_refuted_plain_oneof :
  defects_C07 [fl_pick] fl_pick resp (s "p.Pick") [] pick_val = [C07PlainOneofMemberRequired] /\
  inh [fl_pick] fl_pick (YRef (s "Pick")) (pj [fl_pick] (s "p.Pick") pick_val) = false /\
  (* the message member is optional: had the scalar members been optional too the value would inhabit *)
  inh [fl_pick] fl_pick (YRef (s "Pick")) (JObj [(s "id", JStr (s "i")); (s "aText", JStr (s "t")); (s "aNum", JStr (s "0"))]) = true.
Proof. vm_compute. repeat split; reflexivity. Qed.

(* non-flattened discriminated oneof: {id, type, text} on the wire, {id, payload?: {type, text?}} declared *)
Definition ev_msg := mkmsg (s "p.Event") [s "Event"]
  [mkf (s "id") 1 KString Singular None; mkf (s "text") 2 (KMessage (s "p.TextP")) Singular (Some (s "payload"));
   mkf (s "note") 3 KString Singular (Some (s "payload"))]
  [ {| o_name := s "payload"; o_has_cfg := true; o_discriminator := s "type"; o_flatten := false |} ].
Definition textp := mkmsg (s "p.TextP") [s "TextP"] [mkf (s "body") 1 KString Singular None] [].
Definition fl_ev := mk_echo ev_msg [textp] [].
Definition ev_val : mval := [(s "id", FS (VStr (s "i"))); (s "text", FM [(s "body", FS (VStr (s "b")))])].
Definition ev_wire := JObj [(s "id", JStr (s "i")); (s "type", JStr (s "text")); (s "text", JObj [(s "body", JStr (s "b"))])].
Example C07_refuted_disc_oneof_shape :
  defects_C07 [fl_ev] fl_ev resp (s "p.Event") [] ev_val = [C07DiscOneofShape] /\
  inh [fl_ev] fl_ev (YRef (s "Event")) ev_wire = false /\
  inh [fl_ev] fl_ev (YRef (s "Event"))
      (JObj [(s "id", JStr (s "i")); (s "payload", JObj [(s "type", JStr (s "text")); (s "text", JObj [(s "body", JStr (s "b"))])])]) = true.
Proof. vm_compute. repeat split; reflexivity. Qed.

(* flattened discriminated oneof with no member set: Base & (A | B) demands a discriminator *)
Definition fev_msg := mkmsg (s "p.FlatEvent") [s "FlatEvent"]
  [mkf (s "id") 1 KString Singular None; mkf (s "text") 2 (KMessage (s "p.TextP")) Singular (Some (s "payload"))]
  [ {| o_name := s "payload"; o_has_cfg := true; o_discriminator := s "kind"; o_flatten := true |} ].
Definition fl_fev := mk_echo fev_msg [textp] [].
Example C07_refuted_flat_oneof_unset :
  defects_C07 [fl_fev] fl_fev resp (s "p.FlatEvent") [] [(s "id", FS (VStr (s "i")))] = [C07FlatOneofUnset] /\
  inh [fl_fev] fl_fev (YRef (s "FlatEvent")) (JObj [(s "id", JStr (s "i"))]) = false /\
  inh [fl_fev] fl_fev (YRef (s "FlatEvent")) (JObj [(s "id", JStr (s "i")); (s "kind", JStr (s "text")); (s "body", JStr (s "b"))]) = true.
Proof. vm_compute. repeat split; reflexivity. Qed.

(* Outer.Item and Other.Item: two interfaces named Item merge *)
Definition outer := mkmsg (s "p.Outer") [s "Outer"]
  [mkf (s "item") 1 (KMessage (s "p.Outer.Item")) Singular None; mkf (s "other") 2 (KMessage (s "p.Other.Item")) Singular None] [].
Definition item1 := mkmsg (s "p.Outer.Item") [s "Outer"; s "Item"] [mkf (s "a") 1 KString Singular None] [].
Definition item2 := mkmsg (s "p.Other.Item") [s "Other"; s "Item"] [mkf (s "b") 1 KInt32 Singular None] [].
Definition fl_nest := mk_echo outer [item1; item2] [].
Definition outer_val : mval := [(s "item", FM [(s "a", FS (VStr (s "x")))]); (s "other", FM [(s "b", FS (VInt 7))])].
Example C07_refuted_short_name_merge :
  defects_C07 [fl_nest] fl_nest resp (s "p.Outer") [] outer_val = [C07ShortNameMerge] /\
  inh [fl_nest] fl_nest (YRef (s "Outer")) (pj [fl_nest] (s "p.Outer") outer_val) = false /\
  (exists ds, ts_decls [fl_nest] fl_nest = Ok ds /\
     lookup (env_of ds) (s "Item") = Some (YObject [(s "a", (false, YString)); (s "b", (false, YNumber))])).
Proof. vm_compute. repeat split; try reflexivity. eexists. split; reflexivity. Qed.

(* enum_encoding = NUMBER and enum_value: the Go server writes the proto names *)
Definition lvl : enum :=
  {| e_name := s "p.Lvl"; e_values := [ {| ev_name := s "LVL_UNSPECIFIED"; ev_number := 0; ev_custom := None |};
                                        {| ev_name := s "LVL_HI"; ev_number := 1; ev_custom := Some (s "hi") |} ] |}.
Definition with_enum := mkmsg (s "p.WithEnum") [s "WithEnum"]
  [ {| f_name := s "level"; f_number := 1; f_kind := KEnum (s "p.Lvl"); f_card := Singular; f_oneof := None; f_query := None;
       f_unwrap := false; f_int64 := None; f_enumenc := Some EENumber; f_nullable := None; f_empty := None; f_tsfmt := None;
       f_bytesenc := None; f_oneof_value := None; f_flatten := None; f_flatten_prefix := None |};
    mkf (s "plain_level") 2 (KEnum (s "p.Lvl")) Singular None ] [].
Definition fl_enum := mk_echo with_enum [] [lvl].
Definition enum_val : mval := [(s "level", FS (VEnum 1)); (s "plain_level", FS (VEnum 1))].
Example C07_refuted_enum_number :
  In C07EnumNumberNotApplied (defects_C07 [fl_enum] fl_enum resp (s "p.WithEnum") [] enum_val) /\
  inh [fl_enum] fl_enum (YRef (s "WithEnum")) (JObj [(s "level", JStr (s "LVL_HI")); (s "plainLevel", JStr (s "hi"))]) = false /\
  inh [fl_enum] fl_enum (YRef (s "WithEnum")) (JObj [(s "level", JNum 1); (s "plainLevel", JStr (s "hi"))]) = true.
Proof. vm_compute. repeat split; try reflexivity; auto. Qed.
Example C07_refuted_enum_custom :
  In C07EnumCustomNotApplied (defects_C07 [fl_enum] fl_enum resp (s "p.WithEnum") [] enum_val) /\
  inh [fl_enum] fl_enum (YRef (s "WithEnum")) (JObj [(s "level", JNum 1); (s "plainLevel", JStr (s "LVL_HI"))]) = false.
Proof. vm_compute. repeat split; try reflexivity; auto. Qed.

(* int64 NUMBER below another message: typed number, written as a string by the parent's protojson *)
Definition nums := mkmsg (s "p.Nums") [s "Nums"]
  [ {| f_name := s "a"; f_number := 1; f_kind := KInt64; f_card := Singular; f_oneof := None; f_query := None;
       f_unwrap := false; f_int64 := Some I64Number; f_enumenc := None; f_nullable := None; f_empty := None; f_tsfmt := None;
       f_bytesenc := None; f_oneof_value := None; f_flatten := None; f_flatten_prefix := None |} ] [].
Definition holder := mkmsg (s "p.Holder") [s "Holder"] [mkf (s "nums") 1 (KMessage (s "p.Nums")) Singular None] [].
Definition fl_hold := mk_echo holder [nums] [].
Example C07_refuted_nested_codec :
  defects_C07 [fl_hold] fl_hold resp (s "p.Holder") [] [(s "nums", FM [(s "a", FS (VInt 5))])] = [C07NestedCodecNotApplied] /\
  inh [fl_hold] fl_hold (YRef (s "Holder")) (JObj [(s "nums", JObj [(s "a", JStr (s "5"))])]) = false /\
  inh [fl_hold] fl_hold (YRef (s "Holder")) (JObj [(s "nums", JObj [(s "a", JNum 5)])]) = true.
Proof. vm_compute. repeat split; reflexivity. Qed.

(* root unwrap: the request interface is an object, the accepted body the bare array; an empty response is null *)
Definition bar := mkmsg (s "p.Bar") [s "Bar"] [mkf (s "sym") 1 KString Singular None] [].
Definition rootlist := mkmsg (s "p.RootList") [s "RootList"]
  [ {| f_name := s "items"; f_number := 1; f_kind := KMessage (s "p.Bar"); f_card := Repeated; f_oneof := None; f_query := None;
       f_unwrap := true; f_int64 := None; f_enumenc := None; f_nullable := None; f_empty := None; f_tsfmt := None;
       f_bytesenc := None; f_oneof_value := None; f_flatten := None; f_flatten_prefix := None |} ] [].
Definition fl_root := mk_echo rootlist [bar] [].
Definition res_ty (sc : schema) (tn : str) : tsty := match result_ty sc tn with Ok t => t | Unmodelled _ => YNull end.
Example C07_refuted_root_unwrap_request :
  defects_C07 [fl_root] fl_root (s "inh-request") (s "p.RootList") [] [(s "items", FL [FM [(s "sym", FS (VStr (s "x")))]])]
    = [C07RootUnwrapRequest] /\
  res_ty [fl_root] (s "p.RootList") = YArray (YRef (s "Bar")) /\
  inh [fl_root] fl_root (YRef (s "RootList")) (JArr [JObj [(s "sym", JStr (s "x"))]]) = false /\
  inh [fl_root] fl_root (res_ty [fl_root] (s "p.RootList")) (JArr [JObj [(s "sym", JStr (s "x"))]]) = true.
Proof. vm_compute. repeat split; reflexivity. Qed.
(* only a SCALAR root list / map without elements is written as null; a message list gives [] *)
Definition rootstrs := mkmsg (s "p.RootStrs") [s "RootStrs"]
  [ {| f_name := s "items"; f_number := 1; f_kind := KString; f_card := Repeated; f_oneof := None; f_query := None;
       f_unwrap := true; f_int64 := None; f_enumenc := None; f_nullable := None; f_empty := None; f_tsfmt := None;
       f_bytesenc := None; f_oneof_value := None; f_flatten := None; f_flatten_prefix := None |} ] [].
Definition fl_rootstrs := mk_echo rootstrs [] [].
Example C07_refuted_root_unwrap_null :
  defects_C07 [fl_rootstrs] fl_rootstrs resp (s "p.RootStrs") [] [] = [C07RootUnwrapNull] /\
  inh [fl_rootstrs] fl_rootstrs (res_ty [fl_rootstrs] (s "p.RootStrs")) JNull = false /\
  defects_C07 [fl_root] fl_root resp (s "p.RootList") [] [] = [] /\
  inh [fl_root] fl_root (res_ty [fl_root] (s "p.RootList")) (JArr []) = true.
Proof. vm_compute. repeat split; reflexivity. Qed.

(* a 64-bit sibling of an unwrap map is written as a JSON number *)
Definition barlist := mkmsg (s "p.BarList") [s "BarList"]
  [ {| f_name := s "bars"; f_number := 1; f_kind := KMessage (s "p.Bar"); f_card := Repeated; f_oneof := None; f_query := None;
       f_unwrap := true; f_int64 := None; f_enumenc := None; f_nullable := None; f_empty := None; f_tsfmt := None;
       f_bytesenc := None; f_oneof_value := None; f_flatten := None; f_flatten_prefix := None |} ] [].
Definition mapvalue := mkmsg (s "p.MapValue") [s "MapValue"]
  [mkf (s "series") 1 (KMessage (s "p.BarList")) (MapOf KString) None; mkf (s "total_count") 2 KInt64 Singular None] [].
Definition fl_mv := mk_echo mapvalue [barlist; bar] [].
Example C07_refuted_unwrap_sibling :
  defects_C07 [fl_mv] fl_mv resp (s "p.MapValue") [] [(s "series", FMap []); (s "total_count", FS (VInt 5))] = [C07UnwrapSiblingInt64] /\
  inh [fl_mv] fl_mv (YRef (s "MapValue")) (JObj [(s "series", JObj [(s "k", JArr [])]); (s "totalCount", JNum 5)]) = false /\
  inh [fl_mv] fl_mv (YRef (s "MapValue")) (JObj [(s "series", JObj [(s "k", JArr [])]); (s "totalCount", JStr (s "5"))]) = true.
Proof. vm_compute. repeat split; reflexivity. Qed.

(* flatten: the child's properties are required although the child may be unset; when set, the Go encoder
   writes it with encoding/json (snake_case keys, numbers) *)
Definition detail := mkmsg (s "p.Detail") [s "Detail"] [mkf (s "body_text") 1 KString Singular None; mkf (s "big_count") 2 KInt64 Singular None] [].
Definition post := mkmsg (s "p.Post") [s "Post"]
  [mkf (s "id") 1 KString Singular None;
   {| f_name := s "detail"; f_number := 2; f_kind := KMessage (s "p.Detail"); f_card := Singular; f_oneof := None; f_query := None;
      f_unwrap := false; f_int64 := None; f_enumenc := None; f_nullable := None; f_empty := None; f_tsfmt := None;
      f_bytesenc := None; f_oneof_value := None; f_flatten := Some true; f_flatten_prefix := None |} ] [].
Definition fl_post := mk_echo post [detail] [].
Example C07_refuted_flatten_child_absent :
  defects_C07 [fl_post] fl_post resp (s "p.Post") [] [(s "id", FS (VStr (s "i")))] = [C07FlattenChildAbsent] /\
  inh [fl_post] fl_post (YRef (s "Post")) (JObj [(s "id", JStr (s "i"))]) = false.
Proof. vm_compute. split; reflexivity. Qed.
Example C07_refuted_flatten_go_json :
  defects_C07 [fl_post] fl_post resp (s "p.Post") []
     [(s "id", FS (VStr (s "i"))); (s "detail", FM [(s "body_text", FS (VStr (s "t"))); (s "big_count", FS (VInt 5))])]
    = [C07FlattenChildGoJson] /\
  inh [fl_post] fl_post (YRef (s "Post")) (JObj [(s "id", JStr (s "i")); (s "body_text", JStr (s "t")); (s "big_count", JNum 5)]) = false /\
  inh [fl_post] fl_post (YRef (s "Post")) (JObj [(s "id", JStr (s "i")); (s "bodyText", JStr (s "t")); (s "bigCount", JStr (s "5"))]) = true.
Proof. vm_compute. repeat split; reflexivity. Qed.

(* empty_behavior = NULL writes null into `nul?: Meta` *)
Definition meta := mkmsg (s "p.Meta") [s "Meta"] [mkf (s "k") 1 KString Singular None] [].
Definition emp := mkmsg (s "p.Emp") [s "Emp"]
  [ {| f_name := s "nul"; f_number := 1; f_kind := KMessage (s "p.Meta"); f_card := Singular; f_oneof := None; f_query := None;
       f_unwrap := false; f_int64 := None; f_enumenc := None; f_nullable := None; f_empty := Some EBNull; f_tsfmt := None;
       f_bytesenc := None; f_oneof_value := None; f_flatten := None; f_flatten_prefix := None |} ] [].
Definition fl_emp := mk_echo emp [meta] [].
Example C07_refuted_empty_null :
  defects_C07 [fl_emp] fl_emp resp (s "p.Emp") [] [(s "nul", FM [])] = [C07EmptyBehaviorNull; C07ImplicitPresenceOmitted] /\
  inh [fl_emp] fl_emp (YRef (s "Emp")) (JObj [(s "nul", JNull)]) = false /\
  inh [fl_emp] fl_emp (YRef (s "Emp")) (JObj []) = true.
Proof. vm_compute. repeat split; reflexivity. Qed.

(* the TS server hands "12" to a handler whose request type says `num: number` *)
Definition numreq := mkmsg (s "p.NumReq") [s "NumReq"] [mkf (s "num") 1 KInt32 Singular None] [].
Definition fl_num := mk_echo numreq [] [].
Example C07_refuted_path_param_string :
  defects_C07 [fl_num] fl_num (s "inh-handler-arg") (s "p.NumReq") [s "num"] [(s "num", FS (VInt 12))] = [C07PathParamString] /\
  inh [fl_num] fl_num (YRef (s "NumReq")) (JObj [(s "num", JStr (s "12"))]) = false /\
  inh [fl_num] fl_num (YRef (s "NumReq")) (JObj [(s "num", JNum 12)]) = true.
Proof. vm_compute. repeat split; reflexivity. Qed.
From SebufProofs Require TsTypesCodecs.

(* ---- D. ANNOTATED top-level messages: the JSON the Go server sends (Codec.encode) for a message whose MarshalJSON
   is one of the field codecs inhabits the declared interface, for every well-typed value outside defects_C07.
     e                  : the declarations (TsTypesCodecs.env_okp: every message with a standard interface and every
                          enum declared as the generators declare it; implied by env_ok; = env_of (ts_decls ..) in
                          TsTypesCodecs.tsx_env_real)
     top_field_ok       : no field of the message is an unwrap field or carries enum_encoding = NUMBER
     ProtoJsonFacts.wt  : the value is well-typed in the sense of C04 / C05
     top_entry_ok c     : every field value is a singular Timestamp, or a value of the plain fragment of part A
                          (TsTypesFacts.wt with fuel c: fully populated, un-annotated children)
     c, d               : fuel of the children's typing, fuel to spare; inhabit_fuel = 64 = 4 + c + d --------------- *)
Theorem C07_response_inhabits_field_codec : forall E sc fl e tn md ft m j c d,
  TsTypesCodecs.env_okp sc e ->
  ProtoJson.lookup_message sc tn = Some md -> Codec.owner_of sc md = Codec.Own ft -> CodecCompose.field_codec_ft ft = true ->
  forallb TsTypesCodecs.top_field_ok (m_fields md) = true ->
  ProtoJsonFacts.wt sc (KMessage tn) (FM m) = true ->
  forallb (fun en => match find_field (m_fields md) (fst en) with
                     | Some f => TsTypesCodecs.top_entry_ok c sc f (snd en)
                     | None => false end) m = true ->
  defects_C07 sc fl (s "inh-response") tn [] m = [] ->
  Codec.encode E sc tn m = CodecText.ROk j ->
  inhabits (S (S (S (S (c + d))))) e (YRef (last_seg tn)) j = true.
Proof. exact TsTypesCodecs.field_codec_response_inhabits. Qed.
Print Assumptions C07_response_inhabits_field_codec.

Theorem C07_response_inhabits_nullable : forall E sc fl e tn md m j c d,
  TsTypesCodecs.env_okp sc e ->
  ProtoJson.lookup_message sc tn = Some md -> Codec.owner_of sc md = Codec.Own Codec.FtNullable ->
  forallb TsTypesCodecs.top_field_ok (m_fields md) = true ->
  ProtoJsonFacts.wt sc (KMessage tn) (FM m) = true ->
  forallb (fun en => match find_field (m_fields md) (fst en) with
                     | Some f => TsTypesCodecs.top_entry_ok c sc f (snd en)
                     | None => false end) m = true ->
  defects_C07 sc fl (s "inh-response") tn [] m = [] ->
  Codec.encode E sc tn m = CodecText.ROk j ->
  inhabits (S (S (S (S (c + d))))) e (YRef (last_seg tn)) j = true.
Proof. exact TsTypesCodecs.response_inhabits_nullable. Qed.
Print Assumptions C07_response_inhabits_nullable.

Theorem C07_response_inhabits_int64 : forall E sc fl e tn md m j c d,
  TsTypesCodecs.env_okp sc e ->
  ProtoJson.lookup_message sc tn = Some md -> Codec.owner_of sc md = Codec.Own Codec.FtInt64 ->
  forallb TsTypesCodecs.top_field_ok (m_fields md) = true ->
  ProtoJsonFacts.wt sc (KMessage tn) (FM m) = true ->
  forallb (fun en => match find_field (m_fields md) (fst en) with
                     | Some f => TsTypesCodecs.top_entry_ok c sc f (snd en)
                     | None => false end) m = true ->
  defects_C07 sc fl (s "inh-response") tn [] m = [] ->
  Codec.encode E sc tn m = CodecText.ROk j ->
  inhabits (S (S (S (S (c + d))))) e (YRef (last_seg tn)) j = true.
Proof. exact TsTypesCodecs.response_inhabits_int64. Qed.
Print Assumptions C07_response_inhabits_int64.

Theorem C07_response_inhabits_bytes : forall E sc fl e tn md m j c d,
  TsTypesCodecs.env_okp sc e ->
  ProtoJson.lookup_message sc tn = Some md -> Codec.owner_of sc md = Codec.Own Codec.FtBytes ->
  forallb TsTypesCodecs.top_field_ok (m_fields md) = true ->
  ProtoJsonFacts.wt sc (KMessage tn) (FM m) = true ->
  forallb (fun en => match find_field (m_fields md) (fst en) with
                     | Some f => TsTypesCodecs.top_entry_ok c sc f (snd en)
                     | None => false end) m = true ->
  defects_C07 sc fl (s "inh-response") tn [] m = [] ->
  Codec.encode E sc tn m = CodecText.ROk j ->
  inhabits (S (S (S (S (c + d))))) e (YRef (last_seg tn)) j = true.
Proof. exact TsTypesCodecs.response_inhabits_bytes. Qed.
Print Assumptions C07_response_inhabits_bytes.

Theorem C07_response_inhabits_timestamp : forall E sc fl e tn md m j c d,
  TsTypesCodecs.env_okp sc e ->
  ProtoJson.lookup_message sc tn = Some md -> Codec.owner_of sc md = Codec.Own Codec.FtTs ->
  forallb TsTypesCodecs.top_field_ok (m_fields md) = true ->
  ProtoJsonFacts.wt sc (KMessage tn) (FM m) = true ->
  forallb (fun en => match find_field (m_fields md) (fst en) with
                     | Some f => TsTypesCodecs.top_entry_ok c sc f (snd en)
                     | None => false end) m = true ->
  defects_C07 sc fl (s "inh-response") tn [] m = [] ->
  Codec.encode E sc tn m = CodecText.ROk j ->
  inhabits (S (S (S (S (c + d))))) e (YRef (last_seg tn)) j = true.
Proof. exact TsTypesCodecs.response_inhabits_timestamp. Qed.
Print Assumptions C07_response_inhabits_timestamp.

Theorem C07_response_inhabits_empty : forall E sc fl e tn md m j c d,
  TsTypesCodecs.env_okp sc e ->
  ProtoJson.lookup_message sc tn = Some md -> Codec.owner_of sc md = Codec.Own Codec.FtEmpty ->
  forallb TsTypesCodecs.top_field_ok (m_fields md) = true ->
  ProtoJsonFacts.wt sc (KMessage tn) (FM m) = true ->
  forallb (fun en => match find_field (m_fields md) (fst en) with
                     | Some f => TsTypesCodecs.top_entry_ok c sc f (snd en)
                     | None => false end) m = true ->
  defects_C07 sc fl (s "inh-response") tn [] m = [] ->
  Codec.encode E sc tn m = CodecText.ROk j ->
  inhabits (S (S (S (S (c + d))))) e (YRef (last_seg tn)) j = true.
Proof. exact TsTypesCodecs.response_inhabits_empty. Qed.
Print Assumptions C07_response_inhabits_empty.

(* the protojson form of a child (what the parent's encoder writes), with fuel to spare *)
Theorem C07_protojson_value_inhabits : forall E sc e, TsTypesCodecs.env_okp sc e -> forall f d k v j,
  wt f sc k v = true -> ProtoJson.pj_fval E sc k v = CodecText.ROk j -> inhabits (S (S (f + d))) e (vty k v) j = true.
Proof. exact TsTypesCodecs.pj_fval_inhabits. Qed.
Print Assumptions C07_protojson_value_inhabits.

Theorem C07_env_ok_okp : forall sc e, env_ok sc e -> TsTypesCodecs.env_okp sc e.
Proof. exact TsTypesCodecs.env_ok_okp. Qed.
Print Assumptions C07_env_ok_okp.
