(* C10 — errors surface with the documented status, body, format and client-side type.
   Model: theories/Errors.v; lemmas: proofs/ErrorsFacts.v; tied to the compiled Go server/client (and the
   TS server's catch block) by harness/lib/c10.go on every run. *)
From Sebuf Require Import Text Num Schema Json Value Headers Errors.
From SebufProofs Require Import ErrorsFacts.

(* every error source, no hook: status 400 for violation lists and 500 otherwise, the body is the
   documented message (handler message / violation list / the error's own protobuf message with all its
   fields, unwrapping fmt.Errorf chains), in the request's format with the matching Content-Type; JSON
   bodies of annotated messages agree with their codec *)
Theorem C10_status_body : forall src ct,
  server_defects src None ct = [] ->
  let r := serve_error src None ct in
  r_status r = default_status (documented_final src) /\
  r_body r = BMsg (documented_final src) /\
  r_enc r = server_enc ct /\ r_ct r = ct_of_enc (server_enc ct) /\
  (forall c, r_body r = BMsg (PCustom c) -> r_enc r = EJson -> custom_json false c = custom_json true c).
Proof. exact status_body. Qed.
Print Assumptions C10_status_body.

(* rule failures: one violation per protovalidate violation, named by its dotted field path *)
Theorem C10_rule_paths : forall vs,
  final_of (SRule vs) = PValidation (map (fun pv => (violation_field (fst pv), snd pv)) vs) /\
  (forall els, join_with (s ".") els <> [] -> violation_field (Some els) = join_with (s ".") els).
Proof. intros vs. split; [apply rule_fields|apply dotted_path]. Qed.
Print Assumptions C10_rule_paths.

(* several stages fail at once: the answer is that of the first failing stage in the order required
   headers < body < path/query values < rules (a header failure therefore never touches the body) *)
Theorem C10_failure_order : forall l st src,
  first_failure l = Some (st, src) ->
  In (st, src) l /\ forall st' src', In (st', src') l -> stage_rank st <= stage_rank st'.
Proof. exact first_failure_minimal. Qed.
Print Assumptions C10_failure_order.

(* the hook contract (headers, status, returned message, nil = default, direct write = complete) is met
   exactly whenever the hook does not combine WriteHeader with a server-written body *)
Theorem C10_hook_override : forall p h ct,
  (hk_status h = None \/ hk_write h <> None) ->
  write_error p (Some h) ct = documented_response p (Some h) ct.
Proof. exact hook_documented. Qed.
Print Assumptions C10_hook_override.
(* status, body and the hook's own header are as documented for EVERY hook (only the Content-Type is not) *)
Theorem C10_hook_status_body : forall p h ct,
  let r := write_error p (Some h) ct in
  r_status r = (match hk_status h with Some st => st | None => match hk_write h with Some _ => 200%Z | None => default_status p end end) /\
  r_body r = (match hk_write h with Some w => BRaw w | None => BMsg (if hk_ret_msg h then hooked_msg p else p) end) /\
  r_hook_header r = hook_other_header h.
Proof. exact hook_status_and_body. Qed.
Print Assumptions C10_hook_status_body.

(* Go client: a 400 carrying a violation list becomes a ValidationError with the same violations ... *)
Theorem C10_client_go : forall ct r vs,
  client_enc ct = r_enc r -> r_status r = 400%Z -> r_body r = BMsg (PValidation vs) ->
  client_go ct r = CRValidation vs.
Proof. exact client_validation. Qed.
Print Assumptions C10_client_go.
(* ... and outside the client-side defect classes nothing else becomes one, every other outcome carries
   the status (and the body), and the status-less *sebufhttp.Error does not occur *)
Theorem C10_client_go_sound : forall ct r,
  client_defects ct r = [] -> (400 <= r_status r)%Z ->
  match client_go ct r with
  | CRValidation vs => r_status r = 400%Z /\ r_body r = BMsg (PValidation vs)
  | CROther st => st = r_status r
  | CRError _ => False
  | CRNotError => False
  | CRUnmodelled => True
  end.
Proof. exact client_sound. Qed.
Print Assumptions C10_client_go_sound.
(* the message of an Error body survives the client (but not the status: see the refutation below) *)
Theorem C10_client_go_message : forall ct r m,
  client_enc ct = r_enc r -> (400 < r_status r)%Z -> r_body r = BMsg (PError m) ->
  client_go ct r = CRError (etext_string m).
Proof. exact client_error. Qed.
Print Assumptions C10_client_go_message.

(* whole calls, over the EFFECTIVE content type (per-call override if set, else the client-level value,
   else application/json): it is the request's Content-Type, so the server answers in its format, and the
   client decodes the error body with it; whenever both sides read it the same way a 400 with violations
   is a ValidationError and any other Error body keeps its message *)
Theorem C10_client_go_call : forall src h client_level per_call vs,
  let ct := effective_ct client_level per_call in
  client_enc ct = server_enc ct ->
  r_status (serve_error src h ct) = 400%Z -> r_body (serve_error src h ct) = BMsg (PValidation vs) ->
  go_call_outcome src h client_level per_call = CRValidation vs.
Proof. exact call_validation. Qed.
Print Assumptions C10_client_go_call.
Theorem C10_client_go_call_message : forall src h client_level per_call m,
  let ct := effective_ct client_level per_call in
  client_enc ct = server_enc ct ->
  (400 < r_status (serve_error src h ct))%Z -> r_body (serve_error src h ct) = BMsg (PError m) ->
  go_call_outcome src h client_level per_call = CRError (etext_string m).
Proof. exact call_error. Qed.
Print Assumptions C10_client_go_call_message.
Theorem C10_effective_content_type : forall cl c0 c,
  effective_ct cl (Some (c0 :: c)) = c0 :: c /\ effective_ct cl None = client_default cl /\ effective_ct cl (Some []) = client_default cl.
Proof. intros. repeat split. Qed.
Print Assumptions C10_effective_content_type.

(* size: no hook, both sides reading the content type alike — the COMPLETE violation list (handler-made or
   from the rules) and the COMPLETE message reach the caller, for every list and every text: no length
   appears anywhere (the correspondence check runs 1 / 60 / 600 violations and 10 B / 5 KiB / 200 KiB texts) *)
Theorem C10_client_go_any_size_violations : forall vs rs cl ca,
  let ct := effective_ct cl ca in
  client_enc ct = server_enc ct ->
  go_call_outcome (SHandler (HValidation vs)) None cl ca = CRValidation vs /\
  go_call_outcome (SRule rs) None cl ca = CRValidation (map (fun pv => (violation_field (fst pv), snd pv)) rs).
Proof. intros vs rs cl ca ct E. split; [now apply call_any_size_validation|now apply call_any_size_rules]. Qed.
Print Assumptions C10_client_go_any_size_violations.
Theorem C10_client_go_any_size_message : forall m cl ca,
  let ct := effective_ct cl ca in
  client_enc ct = server_enc ct ->
  go_call_outcome (SHandler (HPlain m)) None cl ca = CRError m /\
  go_call_outcome (SHandler (HSebuf m)) None cl ca = CRError m.
Proof. exact call_any_size_message. Qed.
Print Assumptions C10_client_go_any_size_message.
(* the generators of the size family have the advertised sizes, and the digest under which long texts and
   long lists are compared is the identity on every document without them *)
Theorem C10_size_family : forall n,
  List.length (sized_text n) = 64 * n /\ List.length (gen_viols n) = n /\ List.length (gen_rules n) = n.
Proof. intros n. split; [apply sized_text_length|]. split; [apply gen_viols_length|apply gen_rules_length]. Qed.
Print Assumptions C10_size_family.
Theorem C10_digest_short : forall j, short_json j = true -> digest_json j = j.
Proof. exact digest_json_short. Qed.
Print Assumptions C10_digest_short.
Example C10_any_size_nonvacuous :
  go_call_outcome (SHandler (HValidation (gen_viols 60))) None None None = CRValidation (gen_viols 60) /\
  go_call_outcome (SHandler (HPlain (sized_text 8))) None (Some (s "application/x-protobuf")) None = CRError (sized_text 8) /\
  digest_json (JStr (sized_text 8)) <> JStr (sized_text 8).
Proof. split; [vm_compute; reflexivity|]. split; [vm_compute; reflexivity|]. vm_compute. discriminate. Qed.

(* TS server catch block and TS client handleError *)
Theorem C10_server_ts : forall e,
  ts_status (ts_server_error e None) = match e with TValidation _ => 400%Z | _ => 500%Z end.
Proof. exact ts_server_status. Qed.
Print Assumptions C10_server_ts.
Theorem C10_client_ts : forall vs on_error st body,
  (let r := ts_server_error (TValidation vs) on_error in
   ts_client (ts_status r) (Some (ts_body r)) = TSValidation (ts_violations_json vs)) /\
  (st <> 400%Z -> ts_client st body = TSApi st body).
Proof. intros. split; [apply ts_roundtrip_validation|apply ts_client_other]. Qed.
Print Assumptions C10_client_ts.

(* ---- examples ---------------------------------------------------------------------------------------------- *)
Definition nf : cmsg := {| cm_type := s "rterr.v1.NotFoundError";
  cm_fields := [CStr 1 (s "resource_type") (s "user"); CStr 2 (s "resource_id") (s "42"); CInt32 3 (s "code") 404] |}.
Definition quota : cmsg := {| cm_type := s "rterr.v1.QuotaError";
  cm_fields := [CInt64 1 (s "limit") true 5000000000; CStr 2 (s "reason") (s "too many")] |}.
Definition hk (hd : option (str * str)) (st : option Z) (w : option str) (m : bool) : hook :=
  {| hk_header := hd; hk_status := st; hk_write := w; hk_ret_msg := m |}.
Definition json_ct := s "application/json".
Definition proto_ct := s "application/x-protobuf".

Example C10_nonvacuous :
  (* a custom error message: 500, the message itself, binary under application/octet-stream *)
  server_defects (SHandler (HCustom nf)) None (s "application/octet-stream") = [] /\
  r_body (serve_error (SHandler (HCustom nf)) None (s "application/octet-stream")) = BMsg (PCustom nf) /\
  r_ct (serve_error (SHandler (HCustom nf)) None (s "application/octet-stream")) = CtProtoSent /\
  (* nested / repeated / map paths *)
  final_of (SRule [(Some [s "inner"; s "a"], s "m1"); (Some [s "by_key"; s "n"], s "m2"); (None, s "m3")]) =
    PValidation [(s "inner.a", s "m1"); (s "by_key.n", s "m2"); (s "unknown", s "m3")] /\
  (* a hook that sets a header and returns a message: as documented, and the client sees a ValidationError only for violations *)
  write_error (PValidation [(s "a", s "b")]) (Some (hk (Some (s "X-Hook", s "v")) None None true)) json_ct =
    documented_response (PValidation [(s "a", s "b")]) (Some (hk (Some (s "X-Hook", s "v")) None None true)) json_ct /\
  client_go proto_ct (serve_error (SHandler (HValidation [(s "a.b", s "bad"); (s "c", [])])) None proto_ct) =
    CRValidation [(s "a.b", s "bad"); (s "c", [])] /\
  client_defects json_ct (serve_error (SHandler (HCustom nf)) None json_ct) = [] /\
  client_go json_ct (serve_error (SHandler (HCustom nf)) None json_ct) = CROther 500.
Proof. vm_compute. repeat split; reflexivity. Qed.
Example C10_failure_order_nonvacuous :
  first_failure [(StRule, SRule [(Some [s "name"], s "r")]); (StUrl, SViolations [(s "limit", s "<prose>")]);
                 (StBody, SViolations [(s "body", s "<prose>")])] = Some (StBody, SViolations [(s "body", s "<prose>")]) /\
  first_failure [(StUrl, SViolations [(s "limit", s "<prose>")]); (StHeader, SViolations [(s "X-Upd", s "m")]);
                 (StBody, SViolations [(s "body", s "<prose>")])] = Some (StHeader, SViolations [(s "X-Upd", s "m")]).
Proof. split; reflexivity. Qed.

(* a JSON client whose call is overridden to binary (and the reverse): the failing call still yields the typed errors *)
Example C10_call_override_nonvacuous :
  go_call_outcome (SHandler (HValidation [(s "a", s "b")])) None (Some json_ct) (Some proto_ct) = CRValidation [(s "a", s "b")] /\
  go_call_outcome (SViolations [(s "X-Token", s "m")]) None (Some proto_ct) (Some json_ct) = CRValidation [(s "X-Token", s "m")] /\
  go_call_outcome (SHandler (HPlain (s "backend down"))) None None (Some (s "application/octet-stream")) = CRError (s "backend down") /\
  r_enc (serve_error (SHandler (HPlain (s "backend down"))) None (effective_ct (Some json_ct) (Some proto_ct))) = EBin.
Proof. vm_compute. repeat split; reflexivity. Qed.

(* refutations *)
(* WriteHeader in the hook, body left to the server: the Content-Type never reaches the client *)
Example C10_refuted_hook_status_loses_content_type :
  let h := hk None (Some 418%Z) None true in
  server_defects (SHandler (HPlain (s "boom"))) (Some h) json_ct = [DHookStatusLosesContentType] /\
  r_ct (write_error (PError (lit (s "boom"))) (Some h) json_ct) = CtOther /\
  r_ct (documented_response (PError (lit (s "boom"))) (Some h) json_ct) = CtJsonSent.
Proof. vm_compute. repeat split; reflexivity. Qed.
(* fmt.Errorf("...: %w", custom) loses the message and its fields *)
Example C10_refuted_wrapped_custom_flattened :
  server_defects (SHandler (HWrap (HCustom nf))) None json_ct = [DWrappedCustomFlattened] /\
  documented_final (SHandler (HWrap (HCustom nf))) = PCustom nf /\
  (exists t, r_body (serve_error (SHandler (HWrap (HCustom nf))) None json_ct) = BMsg (PError t)).
Proof. vm_compute. repeat split; try reflexivity. eexists. reflexivity. Qed.
(* ... and a wrapped ValidationError becomes a 500 *)
Example C10_refuted_wrapped_validation_flattened :
  server_defects (SHandler (HWrap (HValidation [(s "a", s "b")]))) None json_ct = [DWrappedValidationFlattened] /\
  default_status (documented_final (SHandler (HWrap (HValidation [(s "a", s "b")])))) = 400%Z /\
  r_status (serve_error (SHandler (HWrap (HValidation [(s "a", s "b")]))) None json_ct) = 500%Z.
Proof. vm_compute. repeat split; reflexivity. Qed.
(* int64_encoding = NUMBER on an error message: the error path writes the protojson string form *)
Example C10_refuted_custom_bypasses_codec :
  server_defects (SHandler (HCustom quota)) None json_ct = [DCustomBypassesCodec] /\
  custom_json false quota <> custom_json true quota.
Proof. vm_compute. split; [reflexivity|discriminate]. Qed.
(* the Go client's *sebufhttp.Error cannot tell 500 from 503 *)
Example C10_refuted_client_drops_status :
  let r1 := serve_error (SHandler (HPlain (s "boom"))) None json_ct in
  let r2 := write_error (PError (lit (s "boom"))) (Some (hk (Some (s "X-Hook", s "v")) (Some 503%Z) None false)) json_ct in
  r_status r1 <> r_status r2 /\ client_go json_ct r1 = client_go json_ct r2 /\
  client_defects json_ct r1 = [DClientDropsStatus].
Proof. vm_compute. repeat split; try reflexivity. discriminate. Qed.
(* binary custom message read as sebuf Error: field 1 becomes the "message", the rest is dropped silently *)
Example C10_refuted_client_misreads_foreign_body :
  let r := serve_error (SHandler (HCustom nf)) None proto_ct in
  client_go proto_ct r = CRError (s "user") /\
  client_defects proto_ct r = [DClientDropsStatus; DClientMisreadsForeignBody].
Proof. vm_compute. split; reflexivity. Qed.
(* 400 with an empty body: ValidationError without violations although the server sent an Error *)
Example C10_refuted_client_empty_400 :
  let r := write_error (PError (lit [])) (Some (hk None (Some 400%Z) None false)) proto_ct in
  client_go proto_ct r = CRValidation [] /\ client_defects proto_ct r = [DClientEmpty400IsValidation].
Proof. vm_compute. split; reflexivity. Qed.
(* a binary content type WITH parameters: binary for the server (filterFlags), JSON for the client *)
Example C10_refuted_client_encoding_mismatch :
  let ct := s "application/x-protobuf; charset=utf-8" in
  let r := serve_error (SHandler (HValidation [(s "a", s "b")])) None ct in
  r_enc r = EBin /\ client_go ct r = CROther 400 /\ client_defects ct r = [DClientEncodingMismatch].
Proof. vm_compute. repeat split; reflexivity. Qed.
(* application/octet-stream (repaired by dea0491): both sides binary, a 400 is a ValidationError again *)
Example C10_octet_stream_agrees :
  let ct := s "application/octet-stream" in
  let r := serve_error (SHandler (HValidation [(s "a", s "b")])) None ct in
  r_enc r = EBin /\ client_enc ct = EBin /\ client_go ct r = CRValidation [(s "a", s "b")] /\ client_defects ct r = [].
Proof. vm_compute. repeat split; reflexivity. Qed.
(* TS server: a malformed body is answered 500 (the Go server answers 400 with a violation for "body") *)
Example C10_refuted_ts_malformed_body_500 :
  ts_server_defects TBadBody = [s "ts-malformed-body-500"] /\ ts_status (ts_server_error TBadBody None) = 500%Z.
Proof. split; reflexivity. Qed.
(* TS client: a Go-server 400 without violations ({}) is an ApiError, not a ValidationError *)
Example C10_refuted_ts_client_empty_violations :
  ts_client 400 (Some (pmsg_pj (PValidation []))) = TSApi 400 (Some (JObj [])).
Proof. reflexivity. Qed.

(* ---- the TS client on ANY failed response: ValidationError with the body's violations, or ApiError with the
   status and the body — never anything else, whatever the status, the hook or the body shape ---------------------- *)
Theorem C10_client_ts_total : forall st body,
  (exists v, ts_client st body = TSValidation v /\ st = 400%Z /\
             exists kv, body = Some (JObj kv) /\ assoc_json (s "violations") kv = Some v /\ js_truthy v = true)
  \/ ts_client st body = TSApi st body.
Proof. exact ts_client_total. Qed.
Print Assumptions C10_client_ts_total.

Theorem C10_client_ts_400_violations : forall kv v rest, assoc_json (s "violations") kv = Some (JArr (v :: rest)) ->
  ts_client 400 (Some (JObj kv)) = TSValidation (JArr (v :: rest)).
Proof. exact ts_client_400_violations. Qed.
Print Assumptions C10_client_ts_400_violations.

(* a hook that sets 400 on a plain error ({"message":...}), a text body, an empty ValidationError: ApiError 400 *)
Example C10_client_ts_nonvacuous :
  ts_client 400 (Some (JObj [(s "message", JStr (s "boom"))])) = TSApi 400 (Some (JObj [(s "message", JStr (s "boom"))])) /\
  ts_client 400 None = TSApi 400 None /\
  ts_client 400 (Some (JObj [])) = TSApi 400 (Some (JObj [])) /\
  ts_client 400 (Some (JObj [(s "violations", JArr [JObj [(s "field", JStr (s "a"))]])])) = TSValidation (JArr [JObj [(s "field", JStr (s "a"))]]).
Proof. vm_compute. repeat split; reflexivity. Qed.
