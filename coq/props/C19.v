(* C19 — OpenAPI constraints accept exactly what the declared validation rules accept.
   Model: Rules.sat (rule semantics: buf/validate's CEL definitions, lengths in code points, reversed
   ranges), Rules.field_schema_y / translate (what internal/openapiv3/validation.go + types.go publish,
   read back from the emitted YAML under a YAML 1.2 reader), Rules.to_json (proto3 JSON wire form),
   JsonSchema.validates (JSON Schema 2020-12). *)
From Sebuf Require Import JsonSchema Yaml Rules OpenApi.
From SebufProofs Require Import RulesFacts OpenApiFacts.

(* For every field kind that carries rules, every cardinality, every rule set outside the defect
   classes and every well-typed value: the reference semantics of the published schema on the wire JSON
   of the value answers exactly what the rules answer — never an error, never out of fuel.
   P is any regex matcher and any format checker that treats the wire-encoding formats (int32, int64,
   uint64, float, double, byte) as annotations. *)
Theorem C19_equiv : forall (P : vparams) (fs : fspec) (r : rules),
  encoding_formats_are_annotations P ->
  rule_kind (fs_kind fs) = true -> rules_wf r = true -> literals_ok r = true ->
  defects_C19 fs r = [] ->
  forall v, typed fs v = true -> forall fuel, 2 <= fuel ->
  validates P [] fuel (translate reader12 fs r) (to_json fs v) = VOk (sat P fs r v).
Proof. exact equiv. Qed.
Print Assumptions C19_equiv.

(* `required` lists a field of a plainly shaped message exactly when its rules require it *)
Theorem C19_required_iff : forall sc sd m f,
  In f (m_fields m) -> NoDup (map jname (m_fields m)) ->
  (In (jname f) (required_of (plain_object_schema sc sd m)) <-> field_required sd (m_name m) f = true).
Proof. exact required_iff. Qed.
Print Assumptions C19_required_iff.

(* a supported well-known string rule is published as `format: <the rule's name>` *)
Theorem C19_format_names : forall r w,
  r_well_known r = Some w -> mem_str w supported_well_known = true ->
  In (s "format", YStr w) (string_entries r).
Proof. exact format_names. Qed.
Print Assumptions C19_format_names.

(* String const / in values are strings (repaired defect string-value-untagged-scalar; the nodes are tagged
   !!str).  For every string c - "123", "true", "null" and "" included - the schema published for
   string.const = c accepts exactly the JSON string c, and the schema published for string.in = a :: l
   exactly the JSON strings of the list: no number, boolean or null in their place, the string itself never
   rejected.  P is any regex matcher / format checker, j any JSON value. *)
Theorem C19_string_const_in_are_strings : forall (P : vparams) (fuel : nat) (j : jv),
  1 <= fuel ->
  (forall c, validates P [] fuel (translate reader12 fstr (const_rules c)) j
             = VOk (match j with JVStr x => str_eqb c x | _ => false end)) /\
  (forall a l, validates P [] fuel (translate reader12 fstr (in_rules (a :: l))) j
               = VOk (match j with JVStr x => mem_str x (a :: l) | _ => false end)).
Proof. exact string_const_in_are_strings. Qed.
Print Assumptions C19_string_const_in_are_strings.

(* the JSON rendering reads the same node as the same string, except for the YAML 1.1 boolean words
   (C18 finding yaml11-bool-word) *)
Theorem C19_string_node_json_rendering : forall x,
  yaml11_bool_word x = false -> denote reader11 (YStr x) = JVStr x /\ denote reader12 (YStr x) = JVStr x.
Proof. exact string_node_json_rendering. Qed.
Print Assumptions C19_string_node_json_rendering.

(* the hostile spellings through the whole pipeline (emitted node, both renderings, no defect tag, the string
   accepted, what an untagged node would have denoted rejected) *)
Example C19_string_const_in_are_strings_examples :
  Forall const_in_ok [s "123"; s "true"; s "null"; s ""; s "1.5"; s "-7"; s "~"; s "fixed"] /\
  map (rd_plain reader12) [s "123"; s "true"; s "null"; s ""] = [JVNum (dec_of_Z 123); JVBool true; JVNull; JVNull] /\
  map (reads_as_string reader12) [s "123"; s "true"; s "null"; s ""; s "fixed"] = [false; false; false; false; true].
Proof. exact string_const_in_are_strings_examples. Qed.

(* Refutations: for each defect class a field, a rule set in exactly that class, and a well-typed value on
   which rules and published schema disagree (refutes tag fs r v, see RulesFacts). *)
Theorem C19_refuted_wrong_message : refutes RulesWrongMessage (fsp KUint32 Singular false) (with_gte (ib 5)) (FOne (RNum (dec_of_Z 0))).
Proof. exact refuted_wrong_message. Qed.
Theorem C19_refuted_int64_string_typed : refutes Int64StringTyped (fsp KInt64 Singular false) (with_gte (ib 3)) (FOne (RNum (dec_of_Z 0))).
Proof. exact refuted_int64_string_typed. Qed.
Theorem C19_refuted_bound_rounded :
  refutes BoundRoundedToFloat64 (fsp KInt64 Singular true)
          (with_lte (bnd (dec_of_Z 9007199254740993) (dec_of_Z 9007199254740992))) (FOne (RNum (dec_of_Z 9007199254740993))).
Proof. exact refuted_bound_rounded. Qed.
Theorem C19_refuted_float32_widened :
  refutes Float32BoundWidened (fsp KFloat Singular false)
          (with_gte (bnd (mkdec 11 (-1)) (mkdec 1100000023841858 (-15)))) (FOne (RNum (mkdec 11 (-1)))).
Proof. exact refuted_float32_widened. Qed.
Theorem C19_refuted_exclusive_bound : refutes ExclusiveBoundFalse (fsp KInt32 Singular false) (with_gt (ib 1)) (FOne (RNum (dec_of_Z 0))).
Proof. exact refuted_exclusive_bound. Qed.
Theorem C19_refuted_reversed_range : refutes ReversedRange (fsp KInt32 Singular false) (with_range (ib 10) (ib 5)) (FOne (RNum (dec_of_Z 0))).
Proof. exact refuted_reversed_range. Qed.
Theorem C19_refuted_len_ignored : refutes StringLenIgnored (fsp KString Singular false) (str_rules None None (Some 3%N) [] None) (FOne (RStr (s "a"))).
Proof. exact refuted_len_ignored. Qed.
Theorem C19_refuted_not_in_ignored : refutes StringNotInIgnored (fsp KString Singular false) (str_rules None None None [s "root"] None) (FOne (RStr (s "root"))).
Proof. exact refuted_not_in_ignored. Qed.
Theorem C19_refuted_item_rules : refutes ItemRulesIgnored (fsp KString Repeated false) (str_rules (Some 2%N) None None [] None) (FList [RStr (s "a")]).
Proof. exact refuted_item_rules. Qed.
Theorem C19_refuted_zero_max : refutes ZeroMaxDropped (fsp KString Singular false) (str_rules None (Some 0%N) None [] None) (FOne (RStr (s "a"))).
Proof. exact refuted_zero_max. Qed.
Theorem C19_refuted_required_dropped :
  exists sc sd m f, In f (m_fields m) /\ field_required sd (m_name m) f = true /\
    Forall (fun set => ~ In (jname f) (required_of (snd set))) (object_schema_sets sc sd m).
Proof. exact refuted_required_dropped. Qed.

Example C19_nonvacuous :
  (rule_kind KString = true /\ rules_wf good_string_rules = true /\ literals_ok good_string_rules = true /\
   defects_C19 (fsp KString Optional false) good_string_rules = [] /\
   sat P0 (fsp KString Optional false) good_string_rules (FOne (RStr (s "abc"))) = true /\
   sat P0 (fsp KString Optional false) good_string_rules (FOne (RStr (s "zzzzzzzz"))) = false) /\
  (defects_C19 (fsp KInt64 Singular true) good_int64_rules = [] /\ literals_ok good_int64_rules = true /\
   typed (fsp KInt64 Singular true) (FOne (RNum (dec_of_Z (-5)))) = true /\
   sat P0 (fsp KInt64 Singular true) good_int64_rules (FOne (RNum (dec_of_Z (-5)))) = true /\
   sat P0 (fsp KInt64 Singular true) good_int64_rules (FOne (RNum (dec_of_Z 2))) = false) /\
  (defects_C19 (fsp KInt64 Repeated false) good_list_rules = [] /\
   typed (fsp KInt64 Repeated false) (FList [RNum (dec_of_Z 3); RNum (dec_of_Z 3)]) = true /\
   sat P0 (fsp KInt64 Repeated false) good_list_rules (FList [RNum (dec_of_Z 3); RNum (dec_of_Z 4)]) = true /\
   sat P0 (fsp KInt64 Repeated false) good_list_rules (FList [RNum (dec_of_Z 3); RNum (dec_of_Z 3)]) = false).
Proof. exact equiv_nonvacuous. Qed.
