(* C08 — Generated TypeScript clients and servers interoperate with the Go ones.
   Only statements, [exact <lemma>], Print Assumptions, and examples checked by computation.
   Model: theories/TsRt.v (TS client, TS server, JS built-ins) over theories/GoRt.v (Go client, Go server). *)
From Sebuf Require Import Text Json Route Schema Value Num Url GoRt TsRt.
From SebufProofs Require Import UrlFacts GoRtFacts TsRtFacts.

(* ---- A. the four escapers / unescapers that meet in a cross-language call ------------------------------ *)

(* decodeURIComponent (TS server) undoes encodeURIComponent (TS client) on every well-formed UTF-8 string *)
Theorem C08_decode_encode_uri : forall x, utf8_valid x = true ->
  decode_uri_component (encode_uri_component x) = Some x.
Proof. exact decode_encode_uri. Qed.
Print Assumptions C08_decode_encode_uri.

(* ... and throws (never invents a value) on the others *)
Theorem C08_decode_encode_uri_invalid : forall x, utf8_valid x = false ->
  decode_uri_component (encode_uri_component x) = None.
Proof. exact decode_encode_uri_invalid. Qed.
Print Assumptions C08_decode_encode_uri_invalid.

(* decodeURIComponent (TS server) undoes Go's url.PathEscape (Go client) *)
Theorem C08_decode_path_escape : forall x, utf8_valid x = true ->
  decode_uri_component (path_escape x) = Some x.
Proof. exact decode_path_escape. Qed.
Print Assumptions C08_decode_path_escape.

(* Go's path unescaping (Go server) undoes encodeURIComponent (TS client), for every byte string *)
Theorem C08_path_unescape_encode_uri : forall x, path_unescape (encode_uri_component x) = Some x.
Proof. exact path_unescape_encode_uri. Qed.
Print Assumptions C08_path_unescape_encode_uri.

Theorem C08_encode_uri_no_slash : forall x, In slash (encode_uri_component x) -> False.
Proof. exact encode_uri_no_slash. Qed.
Print Assumptions C08_encode_uri_no_slash.

Theorem C08_encode_uri_nil_iff : forall x, encode_uri_component x = [] <-> x = [].
Proof. exact encode_uri_nil_iff. Qed.
Print Assumptions C08_encode_uri_nil_iff.

(* url.ParseQuery (Go server) reads URLSearchParams.toString() (TS client) back, pair for pair *)
Theorem C08_parse_query_form_encode : forall kv, parse_query (form_encode kv) = kv.
Proof. exact parse_query_form_encode. Qed.
Print Assumptions C08_parse_query_form_encode.

(* URLSearchParams (TS server) reads its own serializer and Go's url.Values.Encode back *)
Theorem C08_form_parse_form_encode : forall kv, form_parse (form_encode kv) = kv.
Proof. exact form_parse_form_encode. Qed.
Print Assumptions C08_form_parse_form_encode.

Theorem C08_form_parse_encode_query : forall kv, form_parse (encode_query kv) = sort_kv kv.
Proof. exact form_parse_encode_query. Qed.
Print Assumptions C08_form_parse_encode_query.

(* the URL parser removes a segment only when it percent-decodes to "." or ".." ... *)
Theorem C08_dot_segment_decodes_dirty : forall y, dotty y = true ->
  exists d, path_unescape y = Some d /\ dirty_seg d = true.
Proof. exact dotty_unescape. Qed.
Print Assumptions C08_dot_segment_decodes_dirty.

(* ... so an escaped value other than "." and ".." survives it, under either client's escaping *)
Theorem C08_encode_uri_not_dot : forall x, dirty_seg x = false -> dotty (encode_uri_component x) = false.
Proof. exact dotty_encode_uri. Qed.
Print Assumptions C08_encode_uri_not_dot.

Theorem C08_path_escape_not_dot : forall x, dirty_seg x = false -> dotty (path_escape x) = false.
Proof. exact dotty_path_escape. Qed.
Print Assumptions C08_path_escape_not_dot.

Theorem C08_whatwg_identity : forall segs,
  forallb (fun x => negb (dotty x)) segs = true -> whatwg_segs segs = segs.
Proof. exact whatwg_segs_id. Qed.
Print Assumptions C08_whatwg_identity.

(* ---- B. header helper options ---------------------------------------------------------------------------- *)

(* the option whose name is derived from a declared header sets that header ... *)
Theorem C08_header_helper : forall derive declared h,
  In h declared -> In h (helper_sets derive declared (derive h)).
Proof. exact helper_sets_declared. Qed.
Print Assumptions C08_header_helper.

(* ... and no other header, when the derivation separates the declared names *)
Theorem C08_header_helper_exact : forall derive declared h,
  In h declared -> NoDup declared ->
  (forall a b, In a declared -> In b declared -> derive a = derive b -> a = b) ->
  helper_sets derive declared (derive h) = [h].
Proof. exact header_helper_exact. Qed.
Print Assumptions C08_header_helper_exact.

(* Go (one helper per function name, emitted for the first header deriving it): exact when the function
   names of the declared headers are pairwise distinct *)
Theorem C08_go_header_helper_exact : forall declared h,
  In h declared ->
  (forall a b, In a declared -> In b declared -> go_header_func a = go_header_func b -> a = b) ->
  go_helper_sets declared (go_header_func h) = [h].
Proof. exact go_helper_exact. Qed.
Print Assumptions C08_go_header_helper_exact.

(* both derivations separate the names "X-<token without dash>" (TS: up to letter case, as HTTP does) *)
Theorem C08_go_helper_injective : forall t1 t2, ~ In "-"%char t1 -> ~ In "-"%char t2 ->
  go_header_func (s "X-" ++ t1) = go_header_func (s "X-" ++ t2) -> t1 = t2.
Proof. exact go_header_func_inj_simple. Qed.
Print Assumptions C08_go_helper_injective.

Theorem C08_ts_helper_injective : forall t1 t2, ~ In "-"%char t1 -> ~ In "-"%char t2 ->
  ts_header_prop (s "X-" ++ t1) = ts_header_prop (s "X-" ++ t2) -> lower_str t1 = lower_str t2.
Proof. exact ts_header_prop_inj_simple. Qed.
Print Assumptions C08_ts_helper_injective.

(* outside that class distinct headers share an option name *)
Example C08_go_helper_collisions :
  go_header_func (s "X-A-B") = go_header_func (s "X-AB") /\
  go_header_func (s "X-Trace") = go_header_func (s "Trace") /\
  go_header_func (s "Api-Key") = go_header_func (s "X-ApiKey") /\
  (* the second of two colliding headers silently gets no helper of its own: the helper named after it sets the first *)
  go_helper_sets [s "X-Api-Key"; s "Api-Key"] (go_header_func (s "Api-Key")) = [s "X-Api-Key"].
Proof. vm_compute. repeat split; reflexivity. Qed.

Example C08_ts_helper_collisions :
  ts_header_prop (s "X-Trace") = ts_header_prop (s "Trace") /\
  ts_header_prop (s "X-A-1b") = ts_header_prop (s "X-A1b") /\
  ts_header_prop (s "X-A--B") = ts_header_prop (s "X-A-B") /\
  ts_header_prop (s "X-Ab") <> ts_header_prop (s "X-A-B") /\
  (* one TS option then sets both headers *)
  helper_sets ts_header_prop [s "X-Trace"; s "Trace"] (ts_header_prop (s "Trace")) = [s "X-Trace"; s "Trace"].
Proof. vm_compute. repeat split; try reflexivity. discriminate. Qed.

(* ---- C. TS client -> Go server --------------------------------------------------------------------------- *)

(* POST / PUT / PATCH *)
Theorem C08_ts_go : forall sc fl sv md req resp w o,
  ts_go_call sc fl sv md req resp = Ok (w, o) ->
  defects_C08 TsGo sc fl sv md req = [] ->
  In md (sv_methods sv) ->
  wf_body sc fl sv md req = true ->
  ts_template_ok (info_of fl sv md (in_fields sc md)) = true ->
  o = ODelivered (md_name md) (tsobj_of_mval req) resp.
Proof. exact ts_go_body. Qed.
Print Assumptions C08_ts_go.

(* GET / DELETE *)
Theorem C08_ts_go_bodyless : forall sc fl sv md req resp w o,
  ts_go_call sc fl sv md req resp = Ok (w, o) ->
  defects_C08 TsGo sc fl sv md req = [] ->
  In md (sv_methods sv) ->
  wf_nobody sc fl sv md req = true ->
  ts_template_ok (info_of fl sv md (in_fields sc md)) = true ->
  exists saw, o = ODelivered (md_name md) (tsobj_of_mval saw) resp /\
              forall f, In f (in_fields sc md) -> scalar_of saw f = scalar_of req f.
Proof. exact ts_go_nobody. Qed.
Print Assumptions C08_ts_go_bodyless.

(* the TS client's request is served by the Go server exactly as the Go client's request for the same call *)
Theorem C08_ts_go_as_go_go : forall sc fl sv md req resp w o,
  ts_go_call sc fl sv md req resp = Ok (w, o) ->
  defects_C08 TsGo sc fl sv md req = [] ->
  In md (sv_methods sv) -> NoDup (map md_name (sv_methods sv)) ->
  ts_template_ok (info_of fl sv md (in_fields sc md)) = true ->
  path_vals_nonempty (in_fields sc md) req (path_vars (info_of fl sv md (in_fields sc md))) = true ->
  exists wg og, go_call sc fl sv md CtJSON req resp = Ok (wg, og) /\
                defects_C01 sc fl sv md CtJSON req = [] /\ lifts md o og.
Proof. exact ts_go_reduce. Qed.
Print Assumptions C08_ts_go_as_go_go.

(* ---- C'. TS server: TS client -> TS server and Go client -> TS server (POST / PUT / PATCH) ---------------- *)
(* [path_value_ok]: the path variable's field is found, prints to a non-empty UTF-8 string, and the canonical
   reading of that string in the field's kind is the field's entry (true for string and 64-bit fields, see
   C08_path_value_ok_string / _int64; false for the other kinds: C08_refuted_path_param_string).
   _partial: GET/DELETE (query parsing through Number(), === "true", ?? "") is covered by the correspondence
   check and the examples below, not by a theorem. *)
Theorem C08_ts_ts_partial : forall sc fl sv md req hs resp w o,
  ts_ts_call sc fl sv md hs req resp = Ok (w, o) ->
  defects_C08 TsTs sc fl sv md req = [] ->
  In md (sv_methods sv) -> NoDup (map md_name (sv_methods sv)) ->
  verb_has_body (eff_verb (info_of fl sv md (in_fields sc md))) = true ->
  template_ok (info_of fl sv md (in_fields sc md)) = true ->
  ts_template_ok (info_of fl sv md (in_fields sc md)) = true ->
  hdr_violation (sv_headers sv ++ md_headers md) hs = Ok None ->
  (forall v, In v (path_vars (info_of fl sv md (in_fields sc md))) -> path_value_ok sc md req v) ->
  exists saw, o = ODelivered (md_name md) saw resp /\ forall k, tget saw k = tget (tsobj_of_mval req) k.
Proof. exact ts_ts_body. Qed.
Print Assumptions C08_ts_ts_partial.

Theorem C08_go_ts_partial : forall sc fl sv md req hs resp w o,
  go_ts_call sc fl sv md hs req resp = Ok (w, o) ->
  defects_C08 GoTs sc fl sv md req = [] ->
  In md (sv_methods sv) -> NoDup (map md_name (sv_methods sv)) ->
  verb_has_body (eff_verb (info_of fl sv md (in_fields sc md))) = true ->
  template_ok (info_of fl sv md (in_fields sc md)) = true ->
  ts_template_ok (info_of fl sv md (in_fields sc md)) = true ->
  hdr_violation (sv_headers sv ++ md_headers md) hs = Ok None ->
  (forall v, In v (path_vars (info_of fl sv md (in_fields sc md))) -> path_value_ok sc md req v) ->
  exists saw, o = ODelivered (md_name md) saw resp /\ forall k, tget saw k = tget (tsobj_of_mval req) k.
Proof. exact go_ts_body. Qed.
Print Assumptions C08_go_ts_partial.

(* the TS server alone: a request made of the route's own template, with each variable escaped by a function
   that decodeURIComponent inverts, reaches that route's handler with the body's object and the decoded values *)
Theorem C08_ts_server_body : forall sc fl sv md req hs (E : str -> str),
  (forall x, E x = [] -> x = []) ->
  (forall x, utf8_valid x = true -> decode_uri_component (E x) = Some x) ->
  (forall x, ~ In slash (E x)) ->
  forall tw segs,
  In md (sv_methods sv) -> NoDup (map md_name (sv_methods sv)) ->
  tsegs (client_path (info_of fl sv md (in_fields sc md))) = Some segs ->
  seg_vars segs = path_vars (info_of fl sv md (in_fields sc md)) ->
  (forall x, In (SLit x) segs -> ~ In slash x) ->
  verb_has_body (eff_verb (info_of fl sv md (in_fields sc md))) = true ->
  tw_verb tw = eff_verb (info_of fl sv md (in_fields sc md)) ->
  tw_path tw = slash :: join_with [slash] (map (efill (in_fields sc md) req E) segs) ->
  tw_body tw = Some (BJson, req) ->
  (forall v, In v (path_vars (info_of fl sv md (in_fields sc md))) -> path_value_ok sc md req v) ->
  hdr_violation (sv_headers sv ++ md_headers md) hs = Ok None ->
  (forall n, ts_dispatched sc fl sv tw = Some n -> n = md_name md) ->
  forall o, ts_server_handle sc fl sv tw hs = Ok o ->
  exists saw, o = TsDelivered (md_name md) saw /\ forall k, tget saw k = tget (tsobj_of_mval req) k.
Proof. exact ts_server_body. Qed.
Print Assumptions C08_ts_server_body.

Theorem C08_path_value_ok_string : forall sc md req v f x,
  find_field (in_fields sc md) v = Some f -> f_kind f = KString -> mget req (f_name f) = Some (FS (VStr x)) ->
  x <> [] -> utf8_valid x = true -> path_value_ok sc md req v.
Proof. exact path_value_ok_string. Qed.
Print Assumptions C08_path_value_ok_string.

Theorem C08_path_value_ok_int64 : forall sc md req v f z,
  find_field (in_fields sc md) v = Some f -> f_kind f = KInt64 -> mget req (f_name f) = Some (FS (VInt z)) ->
  z <> 0%Z -> (- 2 ^ 63 <= z < 2 ^ 63)%Z -> path_value_ok sc md req v.
Proof. exact path_value_ok_int64. Qed.
Print Assumptions C08_path_value_ok_int64.

(* ---- D. examples: non-vacuity and refutations -------------------------------------------------------------- *)

Definition mkf (n : str) (num : Z) (k : kind) (q : option query_cfg) : field :=
  {| f_name := n; f_number := num; f_kind := k; f_card := Singular; f_oneof := None; f_query := q;
     f_unwrap := false; f_int64 := None; f_enumenc := None; f_nullable := None; f_empty := None;
     f_tsfmt := None; f_bytesenc := None; f_oneof_value := None; f_flatten := None;
     f_flatten_prefix := None |}.
Definition mkmsg (n : str) (fs : list field) : message :=
  {| m_name := n; m_path := [n]; m_fields := fs; m_oneofs := [] |}.
Definition mkmd (n inp path : str) (v : nat) : method :=
  {| md_name := n; md_in := inp; md_out := s "Resp"; md_has_cfg := true; md_path := path;
     md_verb := Some v; md_headers := [] |}.
Definition mksv (base : str) (mds : list method) : service :=
  {| sv_name := s "Items"; sv_base := base; sv_headers := []; sv_methods := mds |}.
Definition mkfl (ms : list message) (sv : service) : file :=
  {| fl_path := s "a.proto"; fl_package := s "pkg"; fl_gopkg := s "pkg"; fl_generate := true;
     fl_messages := ms; fl_enums := []; fl_services := [sv] |}.
Definition qc (n : str) (req : bool) := Some {| q_name := n; q_required := req |}.

(* PUT /api/items/{id}/sub/{n}  (string and int64 path variables),  GET /api/find?page=..&q=..,
   GET /api/n/{num} (int32 path variable), GET /api/items/special next to GET /api/items/{id} *)
Definition put_md := mkmd (s "PutItem") (s "PutReq") (s "/items/{id}/sub/{n}") 3.
Definition find_md := mkmd (s "Find") (s "FindReq") (s "/find") 1.
Definition num_md := mkmd (s "GetNum") (s "NumReq") (s "/n/{num}") 1.
Definition get_md := mkmd (s "GetItem") (s "GetReq") (s "/items/{id}") 1.
Definition special_md := mkmd (s "GetSpecial") (s "Empty") (s "/items/special") 1.
Definition put_msg := mkmsg (s "PutReq")
  [mkf (s "id") 1 KString None; mkf (s "n") 2 KInt64 None; mkf (s "note") 3 KString None].
Definition find_msg := mkmsg (s "FindReq")
  [mkf (s "page") 1 KInt32 (qc (s "page") false); mkf (s "q") 2 KString (qc (s "q") true);
   mkf (s "big") 3 KInt64 (qc (s "big") false)].
Definition num_msg := mkmsg (s "NumReq") [mkf (s "num") 1 KInt32 None].
Definition get_msg := mkmsg (s "GetReq") [mkf (s "id") 1 KString None].
Definition sv1 := mksv (s "/api") [put_md; find_md; num_md; get_md; special_md].
Definition fl1 := mkfl [put_msg; find_msg; num_msg; get_msg; mkmsg (s "Empty") []; mkmsg (s "Resp") []] sv1.
Definition sc1 : schema := [fl1].
Definition resp1 : mval := [(s "ok", FS (VBool true))].
Definition put_req : mval :=
  [(s "id", FS (VStr (s "a b/c%"))); (s "n", FS (VInt (-5))); (s "note", FS (VStr (s "x")))].
Definition find_req : mval := [(s "page", FS (VInt 7)); (s "q", FS (VStr (s "x y&z=1"))); (s "big", FS (VInt 9))].

Definition outcome_of (x : result (wire_req * c08_outcome)) : option c08_outcome :=
  match x with Ok (_, o) => Some o | Unmodelled _ => None end.

Example C08_ts_go_nonvacuous :
  wf_body sc1 fl1 sv1 put_md put_req = true /\
  ts_template_ok (info_of fl1 sv1 put_md (in_fields sc1 put_md)) = true /\
  defects_C08 TsGo sc1 fl1 sv1 put_md put_req = [] /\
  In put_md (sv_methods sv1) /\
  exists w, ts_go_call sc1 fl1 sv1 put_md put_req resp1
              = Ok (w, ODelivered (s "PutItem") (tsobj_of_mval put_req) resp1) /\
            w_path w = s "/api/items/a%20b%2Fc%25/sub/-5".
Proof.
  vm_compute. split; [reflexivity|]. split; [reflexivity|]. split; [reflexivity|]. split; [left; reflexivity|].
  eexists. split; reflexivity.
Qed.

Example C08_ts_go_bodyless_nonvacuous :
  wf_nobody sc1 fl1 sv1 find_md find_req = true /\
  defects_C08 TsGo sc1 fl1 sv1 find_md find_req = [] /\
  exists w, ts_go_call sc1 fl1 sv1 find_md find_req resp1
              = Ok (w, ODelivered (s "Find") (tsobj_of_mval find_req) resp1) /\
            w_query w = [(s "page", s "7"); (s "q", s "x y&z=1"); (s "big", s "9")].
Proof. vm_compute. split; [reflexivity|]. split; [reflexivity|]. eexists. split; reflexivity. Qed.

(* all three pairs deliver the PUT (string + 64-bit path variables) *)
Example C08_three_pairs_deliver :
  outcome_of (go_ts_call sc1 fl1 sv1 put_md [] put_req resp1) = Some (ODelivered (s "PutItem")
     [(s "note", TsV (FS (VStr (s "x")))); (s "id", TsV (FS (VStr (s "a b/c%")))); (s "n", TsV (FS (VInt (-5))))] resp1) /\
  outcome_of (ts_ts_call sc1 fl1 sv1 put_md [] put_req resp1) = outcome_of (go_ts_call sc1 fl1 sv1 put_md [] put_req resp1) /\
  defects_C08 GoTs sc1 fl1 sv1 put_md put_req = [] /\ defects_C08 TsTs sc1 fl1 sv1 put_md put_req = [].
Proof. vm_compute. repeat split; reflexivity. Qed.

(* the hypotheses of C08_ts_ts_partial / C08_go_ts_partial hold for the PUT with a string and a 64-bit path variable *)
Example C08_to_ts_nonvacuous :
  defects_C08 TsTs sc1 fl1 sv1 put_md put_req = [] /\ defects_C08 GoTs sc1 fl1 sv1 put_md put_req = [] /\
  template_ok (info_of fl1 sv1 put_md (in_fields sc1 put_md)) = true /\
  ts_template_ok (info_of fl1 sv1 put_md (in_fields sc1 put_md)) = true /\
  hdr_violation (sv_headers sv1 ++ md_headers put_md) [] = Ok None /\
  path_vars (info_of fl1 sv1 put_md (in_fields sc1 put_md)) = [s "id"; s "n"].
Proof. vm_compute. repeat split; reflexivity. Qed.

Example C08_to_ts_nonvacuous_values :
  path_value_ok sc1 put_md put_req (s "id") /\ path_value_ok sc1 put_md put_req (s "n").
Proof.
  split.
  - apply (path_value_ok_string sc1 put_md put_req (s "id") (mkf (s "id") 1 KString None) (s "a b/c%"));
      try reflexivity. discriminate.
  - apply (path_value_ok_int64 sc1 put_md put_req (s "n") (mkf (s "n") 2 KInt64 None) (-5)%Z);
      try reflexivity; [discriminate|]. split; [discriminate|reflexivity].
Qed.

(* --- refutations --- *)

(* a bodyless route with path variables and query parameters (repaired by 5089e92: before it the TS server
   module declared `const url` twice and did not load): all three pairs now serve the route *)
Definition bad_md := mkmd (s "List") (s "ListReq") (s "/t/{tenant}/items") 1.
Definition bad_msg := mkmsg (s "ListReq") [mkf (s "tenant") 1 KString None; mkf (s "limit") 2 KInt32 (qc (s "limit") false)].
Definition sv_bad := mksv (s "/api") [bad_md; put_md].
Definition fl_bad := mkfl [bad_msg; put_msg; mkmsg (s "Resp") []] sv_bad.
Definition bad_req : mval := [(s "tenant", FS (VStr (s "acme"))); (s "limit", FS (VInt 5))].
Example C08_path_and_query_route_served :
  ts_server_loads [fl_bad] fl_bad = true /\
  defects_C08 TsTs [fl_bad] fl_bad sv_bad bad_md bad_req = [] /\
  outcome_of (ts_ts_call [fl_bad] fl_bad sv_bad bad_md [] bad_req resp1)
    = Some (ODelivered (s "List") [(s "limit", TsV (FS (VInt 5))); (s "tenant", TsV (FS (VStr (s "acme"))))] resp1) /\
  outcome_of (go_ts_call [fl_bad] fl_bad sv_bad bad_md [] bad_req resp1)
    = outcome_of (ts_ts_call [fl_bad] fl_bad sv_bad bad_md [] bad_req resp1) /\
  outcome_of (ts_go_call [fl_bad] fl_bad sv_bad bad_md bad_req resp1)
    = Some (ODelivered (s "List") (tsobj_of_mval bad_req) resp1).
Proof. vm_compute. repeat split; reflexivity. Qed.

(* an int32 path parameter reaches the TS handler as the string "12" in a property typed number *)
Definition num_req : mval := [(s "num", FS (VInt 12))].
Example C08_refuted_path_param_string :
  defects_C08 GoTs sc1 fl1 sv1 num_md num_req = [C08PathParamString] /\
  outcome_of (go_ts_call sc1 fl1 sv1 num_md [] num_req resp1)
    = Some (ODelivered (s "GetNum") [(s "num", TsRaw (JStr (s "12")))] resp1) /\
  outcome_of (ts_ts_call sc1 fl1 sv1 num_md [] num_req resp1)
    = Some (ODelivered (s "GetNum") [(s "num", TsRaw (JStr (s "12")))] resp1) /\
  (* the Go server converts it *)
  outcome_of (ts_go_call sc1 fl1 sv1 num_md num_req resp1)
    = Some (ODelivered (s "GetNum") (tsobj_of_mval num_req) resp1).
Proof. vm_compute. repeat split; reflexivity. Qed.

(* a 64-bit query parameter holding 0 is elided by the client and becomes "" in the TS handler *)
Definition find_req0 : mval := [(s "page", FS (VInt 7)); (s "q", FS (VStr (s "x")))].
Example C08_refuted_int64_query_absent :
  defects_C08 TsTs sc1 fl1 sv1 find_md find_req0 = [C08Int64QueryAbsent] /\
  outcome_of (ts_ts_call sc1 fl1 sv1 find_md [] find_req0 resp1)
    = Some (ODelivered (s "Find") [(s "page", TsV (FS (VInt 7))); (s "q", TsV (FS (VStr (s "x"))));
                                   (s "big", TsRaw (JStr []))] resp1).
Proof. vm_compute. repeat split; reflexivity. Qed.

(* a required query parameter at its zero value is not sent; the Go server refuses, the TS server does not check *)
Definition find_req_noq : mval := [(s "page", FS (VInt 7)); (s "big", FS (VInt 9))].
Example C08_refuted_required_query_zero :
  defects_C08 TsGo sc1 fl1 sv1 find_md find_req_noq = [C08RequiredQueryZeroElided] /\
  outcome_of (ts_go_call sc1 fl1 sv1 find_md find_req_noq resp1) = Some (ORejected (s "q")) /\
  defects_C08 TsTs sc1 fl1 sv1 find_md find_req_noq = [] /\
  outcome_of (ts_ts_call sc1 fl1 sv1 find_md [] find_req_noq resp1)
    = Some (ODelivered (s "Find") [(s "page", TsV (FS (VInt 7))); (s "big", TsV (FS (VInt 9)))] resp1).
Proof. vm_compute. repeat split; reflexivity. Qed.

(* a path value ".." is removed by the URL parser before any server sees it *)
Definition put_req_dots : mval := [(s "id", FS (VStr (s ".."))); (s "n", FS (VInt 1))].
Example C08_refuted_dot_segment :
  defects_C08 TsGo sc1 fl1 sv1 put_md put_req_dots = [C08DotSegment] /\
  outcome_of (ts_go_call sc1 fl1 sv1 put_md put_req_dots resp1) = Some ONotRouted /\
  outcome_of (ts_ts_call sc1 fl1 sv1 put_md [] put_req_dots resp1) = Some ONotRouted /\
  outcome_of (go_ts_call sc1 fl1 sv1 put_md [] put_req_dots resp1) = Some ONotRouted /\
  (exists w o, ts_go_call sc1 fl1 sv1 put_md put_req_dots resp1 = Ok (w, o) /\ w_path w = s "/api/sub/1").
Proof. vm_compute. repeat split; try reflexivity. eexists. eexists. split; reflexivity. Qed.

(* "/" travels as %2F: a trailing slash for ServeMux, a value for the TS server *)
Definition put_req_slash : mval := [(s "id", FS (VStr (s "/"))); (s "n", FS (VInt 1))].
Example C08_refuted_slash_value :
  defects_C08 TsGo sc1 fl1 sv1 put_md put_req_slash = [C08SlashValue] /\
  outcome_of (ts_go_call sc1 fl1 sv1 put_md put_req_slash resp1) = Some ONotRouted /\
  defects_C08 TsTs sc1 fl1 sv1 put_md put_req_slash = [] /\
  outcome_of (ts_ts_call sc1 fl1 sv1 put_md [] put_req_slash resp1)
    = Some (ODelivered (s "PutItem") [(s "id", TsV (FS (VStr (s "/")))); (s "n", TsV (FS (VInt 1)))] resp1).
Proof. vm_compute. repeat split; reflexivity. Qed.

(* no configured path: TS client and Go server use different defaults (C03) *)
Definition def_md : method :=
  {| md_name := s "CreateUser"; md_in := s "PutReq"; md_out := s "Resp"; md_has_cfg := false; md_path := [];
     md_verb := None; md_headers := [] |}.
Definition sv_def := mksv [] [def_md].
Definition fl_def := mkfl [put_msg; mkmsg (s "Resp") []] sv_def.
Example C08_refuted_default_path :
  defects_C08 TsGo [fl_def] fl_def sv_def def_md put_req = [C08Route DefaultPath] /\
  outcome_of (ts_go_call [fl_def] fl_def sv_def def_md put_req resp1) = Some ONotRouted /\
  defects_C08 TsTs [fl_def] fl_def sv_def def_md put_req = [] /\
  outcome_of (ts_ts_call [fl_def] fl_def sv_def def_md [] put_req resp1)
    = Some (ODelivered (s "CreateUser") (tsobj_of_mval put_req) resp1).
Proof. vm_compute. repeat split; reflexivity. Qed.

(* a required query parameter on a body verb is never put on the URL by the TS client *)
Definition upd_md := mkmd (s "Update") (s "UpdReq") (s "/items/{id}") 3.
Definition upd_msg := mkmsg (s "UpdReq") [mkf (s "id") 1 KString None; mkf (s "mode") 2 KString (qc (s "mode") true)].
Definition sv_upd := mksv (s "/api") [upd_md].
Definition fl_upd := mkfl [upd_msg; mkmsg (s "Resp") []] sv_upd.
Definition upd_req : mval := [(s "id", FS (VStr (s "a"))); (s "mode", FS (VStr (s "m")))].
Example C08_refuted_required_query :
  defects_C08 TsGo [fl_upd] fl_upd sv_upd upd_md upd_req = [C08RequiredQueryOnBodyVerb] /\
  outcome_of (ts_go_call [fl_upd] fl_upd sv_upd upd_md upd_req resp1) = Some (ORejected (s "mode")) /\
  outcome_of (ts_ts_call [fl_upd] fl_upd sv_upd upd_md [] upd_req resp1)
    = Some (ODelivered (s "Update") [(s "mode", TsV (FS (VStr (s "m")))); (s "id", TsV (FS (VStr (s "a"))))] resp1).
Proof. vm_compute. repeat split; reflexivity. Qed.

(* GET /items/{id} with id = "special" is served by the sibling GET /items/special on both servers *)
Definition get_req_special : mval := [(s "id", FS (VStr (s "special")))].
Example C08_refuted_sibling :
  defects_C08 TsGo sc1 fl1 sv1 get_md get_req_special = [C08SiblingRoute] /\
  outcome_of (ts_go_call sc1 fl1 sv1 get_md get_req_special resp1) = Some (ODelivered (s "GetSpecial") [] resp1) /\
  defects_C08 TsTs sc1 fl1 sv1 get_md get_req_special = [C08SiblingRoute] /\
  outcome_of (ts_ts_call sc1 fl1 sv1 get_md [] get_req_special resp1) = Some (ODelivered (s "GetSpecial") [] resp1).
Proof. vm_compute. repeat split; reflexivity. Qed.

(* the TS server facing requests no generated client sends: Number("abc") is NaN (no 400), the query string
   of a body verb is never read, a malformed escape in the path is a 500 *)
Definition tw (v : verb) (p q : str) (b : option mval) : ts_wire :=
  {| tw_verb := v; tw_path := p; tw_query := q; tw_body := match b with Some m => Some (BJson, m) | None => None end |}.
Definition upd_opt_msg := mkmsg (s "UpdReq") [mkf (s "id") 1 KString None; mkf (s "mode") 2 KString (qc (s "mode") false)].
Definition fl_upd2 := mkfl [upd_opt_msg; mkmsg (s "Resp") []] sv_upd.
Example C08_ts_server_raw_behaviour :
  ts_server_handle sc1 fl1 sv1 (tw GET (s "/api/find") (s "page=abc&q=x&big=1") None) []
    = Ok (TsDelivered (s "Find") [(s "page", TsRaw (JObj [(s "$num", JStr (s "NaN"))]));
                                  (s "q", TsV (FS (VStr (s "x")))); (s "big", TsV (FS (VInt 1)))]) /\
  ts_server_handle [fl_upd2] fl_upd2 sv_upd (tw PUT (s "/api/items/a") (s "mode=x") (Some [])) []
    = Ok (TsDelivered (s "Update") [(s "id", TsV (FS (VStr (s "a"))))]) /\
  (* the Go server binds that query parameter (no body: nothing resets it) *)
  match server_routes [fl_upd2] fl_upd2 sv_upd with
  | Ok (Some rs) =>
      server_handle rs {| w_verb := PUT; w_path := s "/api/items/a"; w_query := [(s "mode", s "x")]; w_body := None |} CtJSON []
  | _ => Unmodelled []
  end = Ok (inl (Some ([(s "id", FS (VStr (s "a"))); (s "mode", FS (VStr (s "x")))], (BJson, [])))) /\
  ts_server_handle sc1 fl1 sv1 (tw GET (s "/api/items/%zz") [] None) [] = Ok TsServerError.
Proof. vm_compute. repeat split; reflexivity. Qed.

(* ---- E. GET / DELETE routes into the TS server (path variables + query parameters) ------------------------- *)
(* Lemmas: proofs/TsRtBodiless.v.  The TS server reads a query parameter with Number(q ?? "0") (32-bit kinds),
   q === "true" (bool), q ?? "" (string and String()-typed 64-bit kinds) and a path variable with
   decodeURIComponent; both clients leave a query field holding its zero value off the URL.
   [wf_nobody] (GoRtFacts, the side conditions of C01_bodiless_verbs): the verb has no body, method names and
   field names are distinct, every path value prints to a non-empty string, URL-capable fields hold values of
   their declared type, every input field is a path variable or a query parameter.
   [path_vals_utf8]: the path values are UTF-8 (decodeURIComponent throws on other byte strings).
   [ts_saw_req fs req saw]: for every input field f, saw lists f's value in req — nothing when it is the zero
   value — under f's name, and saw has no other key.
   The defect list excludes, besides the classes of the body verbs: a path variable of a kind other than string /
   64-bit (C08PathParamString), a 64-bit query field holding zero (C08Int64QueryAbsent), two query fields
   sharing a parameter name (C08DuplicateQueryName). *)
From SebufProofs Require TsRtBodiless.

Theorem C08_ts_ts_bodiless : forall sc fl sv md req hs resp w o,
  ts_ts_call sc fl sv md hs req resp = Ok (w, o) ->
  defects_C08 TsTs sc fl sv md req = [] ->
  In md (sv_methods sv) ->
  wf_nobody sc fl sv md req = true ->
  TsRtBodiless.path_vals_utf8 (in_fields sc md) req (path_vars (info_of fl sv md (in_fields sc md))) = true ->
  template_ok (info_of fl sv md (in_fields sc md)) = true ->
  ts_template_ok (info_of fl sv md (in_fields sc md)) = true ->
  hdr_violation (sv_headers sv ++ md_headers md) hs = Ok None ->
  exists saw, o = ODelivered (md_name md) saw resp /\ TsRtBodiless.ts_saw_req (in_fields sc md) req saw.
Proof. exact TsRtBodiless.ts_ts_nobody. Qed.
Print Assumptions C08_ts_ts_bodiless.

Theorem C08_go_ts_bodiless : forall sc fl sv md req hs resp w o,
  go_ts_call sc fl sv md hs req resp = Ok (w, o) ->
  defects_C08 GoTs sc fl sv md req = [] ->
  In md (sv_methods sv) ->
  wf_nobody sc fl sv md req = true ->
  TsRtBodiless.path_vals_utf8 (in_fields sc md) req (path_vars (info_of fl sv md (in_fields sc md))) = true ->
  template_ok (info_of fl sv md (in_fields sc md)) = true ->
  ts_template_ok (info_of fl sv md (in_fields sc md)) = true ->
  hdr_violation (sv_headers sv ++ md_headers md) hs = Ok None ->
  exists saw, o = ODelivered (md_name md) saw resp /\ TsRtBodiless.ts_saw_req (in_fields sc md) req saw.
Proof. exact TsRtBodiless.go_ts_nobody. Qed.
Print Assumptions C08_go_ts_bodiless.

(* for a canonical request value (populated fields only, the values the harness and protobuf-es produce) the
   handler object is the request, key for key — the conclusion of C08_ts_ts_partial / C08_go_ts_partial *)
Theorem C08_ts_ts_bodiless_exact : forall sc fl sv md req hs resp w o,
  ts_ts_call sc fl sv md hs req resp = Ok (w, o) ->
  defects_C08 TsTs sc fl sv md req = [] ->
  In md (sv_methods sv) ->
  wf_nobody sc fl sv md req = true ->
  TsRtBodiless.path_vals_utf8 (in_fields sc md) req (path_vars (info_of fl sv md (in_fields sc md))) = true ->
  template_ok (info_of fl sv md (in_fields sc md)) = true ->
  ts_template_ok (info_of fl sv md (in_fields sc md)) = true ->
  hdr_violation (sv_headers sv ++ md_headers md) hs = Ok None ->
  canonicalb (in_fields sc md) req = true ->
  exists saw, o = ODelivered (md_name md) saw resp /\ forall k, tget saw k = tget (tsobj_of_mval req) k.
Proof. exact TsRtBodiless.ts_ts_nobody_exact. Qed.
Print Assumptions C08_ts_ts_bodiless_exact.

Theorem C08_go_ts_bodiless_exact : forall sc fl sv md req hs resp w o,
  go_ts_call sc fl sv md hs req resp = Ok (w, o) ->
  defects_C08 GoTs sc fl sv md req = [] ->
  In md (sv_methods sv) ->
  wf_nobody sc fl sv md req = true ->
  TsRtBodiless.path_vals_utf8 (in_fields sc md) req (path_vars (info_of fl sv md (in_fields sc md))) = true ->
  template_ok (info_of fl sv md (in_fields sc md)) = true ->
  ts_template_ok (info_of fl sv md (in_fields sc md)) = true ->
  hdr_violation (sv_headers sv ++ md_headers md) hs = Ok None ->
  canonicalb (in_fields sc md) req = true ->
  exists saw, o = ODelivered (md_name md) saw resp /\ forall k, tget saw k = tget (tsobj_of_mval req) k.
Proof. exact TsRtBodiless.go_ts_nobody_exact. Qed.
Print Assumptions C08_go_ts_bodiless_exact.

(* the TS server alone on a bodiless route: a request made of the route's own template (each variable escaped
   by a function decodeURIComponent inverts) whose query string reads back, per query field, as nothing for the
   zero value and the printed value otherwise, reaches the route's handler with exactly the URL-bound fields *)
Theorem C08_ts_server_bodiless : forall sc fl sv md req hs (E : str -> str),
  (forall x, E x = [] -> x = []) ->
  (forall x, utf8_valid x = true -> decode_uri_component (E x) = Some x) ->
  (forall x, ~ In slash (E x)) ->
  forall tw segs,
  In md (sv_methods sv) -> NoDup (map md_name (sv_methods sv)) ->
  tsegs (client_path (info_of fl sv md (in_fields sc md))) = Some segs ->
  seg_vars segs = path_vars (info_of fl sv md (in_fields sc md)) ->
  (forall x, In (SLit x) segs -> ~ In slash x) ->
  verb_has_body (eff_verb (info_of fl sv md (in_fields sc md))) = false ->
  tw_verb tw = eff_verb (info_of fl sv md (in_fields sc md)) ->
  tw_path tw = slash :: join_with [slash] (map (efill (in_fields sc md) req E) segs) ->
  NoDup (map f_name (in_fields sc md)) ->
  (forall v, In v (path_vars (info_of fl sv md (in_fields sc md))) -> TsRtBodiless.path_var_ok sc md req v) ->
  (forall f, In f (query_fields (in_fields sc md)) -> TsRtBodiless.query_par_ok req (form_parse (tw_query tw)) f) ->
  hdr_violation (sv_headers sv ++ md_headers md) hs = Ok None ->
  (forall n, ts_dispatched sc fl sv tw = Some n -> n = md_name md) ->
  forall o, ts_server_handle sc fl sv tw hs = Ok o ->
  exists saw, o = TsDelivered (md_name md) saw /\
    forall k, tget saw k =
      if existsb (str_eqb k) (path_vars (info_of fl sv md (in_fields sc md)) ++ map f_name (query_fields (in_fields sc md)))
      then TsRtBodiless.expect_key (in_fields sc md) req k else None.
Proof. exact TsRtBodiless.ts_server_nobody. Qed.
Print Assumptions C08_ts_server_bodiless.

(* the JS conversions the query binding relies on *)
Theorem C08_number_of_decimal : forall z, (- 2 ^ 53 <= z <= 2 ^ 53)%Z -> z <> 0%Z -> js_number (show_int z) = NumInt z.
Proof. exact TsRtBodiless.js_number_show_int. Qed.
Print Assumptions C08_number_of_decimal.

Theorem C08_query_value_read_back : forall f q v,
  url_kind_ok (f_kind f) = true -> TsRtBodiless.not_number_enc f = true ->
  typed_scalar (f_kind f) v -> is_64 (f_kind f) && is_zero v = false ->
  params_get q (qname f) = (if is_zero v then None else Some (sprint v)) ->
  exists j, ts_query_js f q = Ok j /\
            canon_js (f_kind f) j = if is_zero v then None else Some (TsV (FS v)).
Proof. exact TsRtBodiless.canon_query_value. Qed.
Print Assumptions C08_query_value_read_back.

Theorem C08_path_value_read_back : forall k v, is_str_or_64 k = true -> typed_scalar k v -> sprint v <> [] ->
  canon_js k (JsStr (sprint v)) = if is_zero v then None else Some (TsV (FS v)).
Proof. exact TsRtBodiless.canon_path_value. Qed.
Print Assumptions C08_path_value_read_back.

(* --- non-vacuity: GET /api/t/{tenant}/items?q=..&page-size=.. ; values that need escaping (space, '/', '%', '?',
       '&', '=', '+', '#', two-byte UTF-8 sequences), a negative number --- *)
Definition list_md := mkmd (s "ListItems") (s "ListReq") (s "/t/{tenant}/items") 1.
Definition list_msg := mkmsg (s "ListReq")
  [mkf (s "tenant") 1 KString None; mkf (s "q") 2 KString (qc (s "q") false);
   mkf (s "limit") 3 KInt32 (qc (s "page-size") false)].
Definition sv_list := mksv (s "/api") [list_md; put_md].
Definition fl_list := mkfl [list_msg; put_msg; mkmsg (s "Resp") []] sv_list.
Definition u_uml : str := [ch 195; ch 188].      (* U+00FC *)
Definition e_acute : str := [ch 195; ch 169].    (* U+00E9 *)
Definition list_req : mval :=
  [(s "tenant", FS (VStr (s "a b/" ++ u_uml ++ s "%?"))); (s "q", FS (VStr (s "x y&z=1+" ++ e_acute ++ s "#")));
   (s "limit", FS (VInt (-7)))].
Definition list_saw : tsobj :=
  [(s "q", TsV (FS (VStr (s "x y&z=1+" ++ e_acute ++ s "#")))); (s "limit", TsV (FS (VInt (-7))));
   (s "tenant", TsV (FS (VStr (s "a b/" ++ u_uml ++ s "%?"))))].

Definition wire_of (x : result (wire_req * c08_outcome)) : option wire_req :=
  match x with Ok (w, _) => Some w | Unmodelled _ => None end.

Example C08_bodiless_nonvacuous :
  (* the hypotheses of C08_ts_ts_bodiless(_exact) and C08_go_ts_bodiless(_exact) *)
  defects_C08 TsTs [fl_list] fl_list sv_list list_md list_req = [] /\
  defects_C08 GoTs [fl_list] fl_list sv_list list_md list_req = [] /\
  In list_md (sv_methods sv_list) /\
  wf_nobody [fl_list] fl_list sv_list list_md list_req = true /\
  TsRtBodiless.path_vals_utf8 (in_fields [fl_list] list_md) list_req
    (path_vars (info_of fl_list sv_list list_md (in_fields [fl_list] list_md))) = true /\
  template_ok (info_of fl_list sv_list list_md (in_fields [fl_list] list_md)) = true /\
  ts_template_ok (info_of fl_list sv_list list_md (in_fields [fl_list] list_md)) = true /\
  hdr_violation (sv_headers sv_list ++ md_headers list_md) [] = Ok None /\
  canonicalb (in_fields [fl_list] list_md) list_req = true /\
  path_vars (info_of fl_list sv_list list_md (in_fields [fl_list] list_md)) = [s "tenant"] /\
  map qname (query_fields (in_fields [fl_list] list_md)) = [s "q"; s "page-size"] /\
  (* ... and what happens *)
  outcome_of (ts_ts_call [fl_list] fl_list sv_list list_md [] list_req resp1)
    = Some (ODelivered (s "ListItems") list_saw resp1) /\
  outcome_of (go_ts_call [fl_list] fl_list sv_list list_md [] list_req resp1)
    = Some (ODelivered (s "ListItems") list_saw resp1) /\
  option_map w_path (wire_of (ts_ts_call [fl_list] fl_list sv_list list_md [] list_req resp1))
    = Some (s "/api/t/a%20b%2F%C3%BC%25%3F/items") /\
  option_map w_path (wire_of (go_ts_call [fl_list] fl_list sv_list list_md [] list_req resp1))
    = Some (s "/api/t/a%20b%2F%C3%BC%25%3F/items") /\
  (* the query string as URLSearchParams and as url.Values.Encode write it *)
  match ts_client_build fl_list sv_list list_md (in_fields [fl_list] list_md) list_req with
  | Ok tw => tw_query tw | Unmodelled _ => [] end = s "q=x+y%26z%3D1%2B%C3%A9%23&page-size=-7" /\
  option_map (fun w => encode_query (w_query w)) (wire_of (go_ts_call [fl_list] fl_list sv_list list_md [] list_req resp1))
    = Some (s "page-size=-7&q=x+y%26z%3D1%2B%C3%A9%23").
Proof. repeat match goal with |- _ /\ _ => split end; first [vm_compute; reflexivity | left; reflexivity]. Qed.

(* the theorems applied to it *)
Example C08_bodiless_nonvacuous_applied : forall w o,
  ts_ts_call [fl_list] fl_list sv_list list_md [] list_req resp1 = Ok (w, o) ->
  exists saw, o = ODelivered (s "ListItems") saw resp1 /\ forall k, tget saw k = tget (tsobj_of_mval list_req) k.
Proof.
  intros w o H.
  apply (C08_ts_ts_bodiless_exact [fl_list] fl_list sv_list list_md list_req [] resp1 w o H);
    first [vm_compute; reflexivity | left; reflexivity].
Qed.

(* every URL-capable kind as a query parameter: bool, the six 32-bit kinds, the five 64-bit kinds (above 2^53 and
   at both ends of their range), a zero-valued int32 / bool / string left off the URL and re-created as absent *)
Definition kinds_md := mkmd (s "Kinds") (s "KindsReq") (s "/k/{id}") 4.
Definition kq (n : str) (num : Z) (k : kind) : field := mkf n num k (qc n false).
Definition kinds_msg := mkmsg (s "KindsReq")
  [mkf (s "id") 1 KUint64 None; kq (s "b") 2 KBool; kq (s "i32") 3 KInt32; kq (s "s32") 4 KSint32;
   kq (s "sf32") 5 KSfixed32; kq (s "u32") 6 KUint32; kq (s "f32") 7 KFixed32; kq (s "i64") 8 KInt64;
   kq (s "s64") 9 KSint64; kq (s "sf64") 10 KSfixed64; kq (s "u64") 11 KUint64; kq (s "f64") 12 KFixed64;
   kq (s "zi") 13 KInt32; kq (s "zb") 14 KBool; kq (s "zs") 15 KString].
Definition sv_kinds := mksv (s "/api") [kinds_md].
Definition fl_kinds := mkfl [kinds_msg; mkmsg (s "Resp") []] sv_kinds.
Definition kinds_req : mval :=
  [(s "id", FS (VInt 18446744073709551615)); (s "b", FS (VBool true)); (s "i32", FS (VInt (-2147483648)));
   (s "s32", FS (VInt 2147483647)); (s "sf32", FS (VInt (-1))); (s "u32", FS (VInt 4294967295));
   (s "f32", FS (VInt 1)); (s "i64", FS (VInt (-9223372036854775808))); (s "s64", FS (VInt 9223372036854775807));
   (s "sf64", FS (VInt 9007199254740993)); (s "u64", FS (VInt 18446744073709551615)); (s "f64", FS (VInt 7))].
Example C08_bodiless_all_kinds :
  defects_C08 TsTs [fl_kinds] fl_kinds sv_kinds kinds_md kinds_req = [] /\
  defects_C08 GoTs [fl_kinds] fl_kinds sv_kinds kinds_md kinds_req = [] /\
  wf_nobody [fl_kinds] fl_kinds sv_kinds kinds_md kinds_req = true /\
  TsRtBodiless.path_vals_utf8 (in_fields [fl_kinds] kinds_md) kinds_req
    (path_vars (info_of fl_kinds sv_kinds kinds_md (in_fields [fl_kinds] kinds_md))) = true /\
  template_ok (info_of fl_kinds sv_kinds kinds_md (in_fields [fl_kinds] kinds_md)) = true /\
  ts_template_ok (info_of fl_kinds sv_kinds kinds_md (in_fields [fl_kinds] kinds_md)) = true /\
  canonicalb (in_fields [fl_kinds] kinds_md) kinds_req = true /\
  option_map w_verb (wire_of (ts_ts_call [fl_kinds] fl_kinds sv_kinds kinds_md [] kinds_req resp1)) = Some DELETE /\
  match outcome_of (ts_ts_call [fl_kinds] fl_kinds sv_kinds kinds_md [] kinds_req resp1) with
  | Some (ODelivered n saw _) => (n, List.length saw) | _ => ([], O) end = (s "Kinds", 12%nat) /\
  outcome_of (go_ts_call [fl_kinds] fl_kinds sv_kinds kinds_md [] kinds_req resp1)
    = outcome_of (ts_ts_call [fl_kinds] fl_kinds sv_kinds kinds_md [] kinds_req resp1).
Proof. repeat match goal with |- _ /\ _ => split end; first [vm_compute; reflexivity | left; reflexivity]. Qed.

Example C08_bodiless_all_kinds_applied :
  (forall w o, ts_ts_call [fl_kinds] fl_kinds sv_kinds kinds_md [] kinds_req resp1 = Ok (w, o) ->
     exists saw, o = ODelivered (s "Kinds") saw resp1 /\ forall k, tget saw k = tget (tsobj_of_mval kinds_req) k) /\
  (forall w o, go_ts_call [fl_kinds] fl_kinds sv_kinds kinds_md [] kinds_req resp1 = Ok (w, o) ->
     exists saw, o = ODelivered (s "Kinds") saw resp1 /\ forall k, tget saw k = tget (tsobj_of_mval kinds_req) k).
Proof.
  split; intros w o H.
  - apply (C08_ts_ts_bodiless_exact [fl_kinds] fl_kinds sv_kinds kinds_md kinds_req [] resp1 w o H);
      first [vm_compute; reflexivity | left; reflexivity].
  - apply (C08_go_ts_bodiless_exact [fl_kinds] fl_kinds sv_kinds kinds_md kinds_req [] resp1 w o H);
      first [vm_compute; reflexivity | left; reflexivity].
Qed.

(* --- the side conditions are needed --- *)

(* [wf_nobody], typed values: an int32 query field holding 2^40 (a TS `number` can) arrives as a raw number the
   canonical reading refuses; every other hypothesis holds *)
Definition list_req_big : mval :=
  [(s "tenant", FS (VStr (s "acme"))); (s "q", FS (VStr (s "x"))); (s "limit", FS (VInt 1099511627776))].
Example C08_bodiless_needs_typed :
  defects_C08 TsTs [fl_list] fl_list sv_list list_md list_req_big = [] /\
  req_typedb (in_fields [fl_list] list_md) list_req_big = false /\
  wf_nobody [fl_list] fl_list sv_list list_md list_req = true /\            (* same schema, typed value: holds *)
  TsRtBodiless.path_vals_utf8 (in_fields [fl_list] list_md) list_req_big [s "tenant"] = true /\
  outcome_of (ts_ts_call [fl_list] fl_list sv_list list_md [] list_req_big resp1)
    = Some (ODelivered (s "ListItems")
        [(s "q", TsV (FS (VStr (s "x")))); (s "limit", TsRaw (JNum 1099511627776)); (s "tenant", TsV (FS (VStr (s "acme"))))] resp1) /\
  outcome_of (go_ts_call [fl_list] fl_list sv_list list_md [] list_req_big resp1)
    = outcome_of (ts_ts_call [fl_list] fl_list sv_list list_md [] list_req_big resp1).
Proof. repeat match goal with |- _ /\ _ => split end; first [vm_compute; reflexivity | left; reflexivity]. Qed.

(* [wf_nobody], cover: an input field that is neither a path variable nor a query parameter is not sent on a
   GET; the handler does not see it (as for the Go server, C01) *)
Definition cov_md := mkmd (s "Cov") (s "CovReq") (s "/c/{id}") 1.
Definition cov_msg := mkmsg (s "CovReq")
  [mkf (s "id") 1 KString None; mkf (s "q") 2 KString (qc (s "q") false); mkf (s "note") 3 KString None].
Definition sv_cov := mksv (s "/api") [cov_md].
Definition fl_cov := mkfl [cov_msg; mkmsg (s "Resp") []] sv_cov.
Definition cov_req : mval := [(s "id", FS (VStr (s "a"))); (s "q", FS (VStr (s "x"))); (s "note", FS (VStr (s "lost")))].
Example C08_bodiless_needs_cover :
  defects_C08 TsTs [fl_cov] fl_cov sv_cov cov_md cov_req = [] /\
  defects_C08 GoTs [fl_cov] fl_cov sv_cov cov_md cov_req = [] /\
  coverb (in_fields [fl_cov] cov_md) [s "id"] = false /\
  req_typedb (in_fields [fl_cov] cov_md) cov_req = true /\ canonicalb (in_fields [fl_cov] cov_md) cov_req = true /\
  outcome_of (ts_ts_call [fl_cov] fl_cov sv_cov cov_md [] cov_req resp1)
    = Some (ODelivered (s "Cov") [(s "q", TsV (FS (VStr (s "x")))); (s "id", TsV (FS (VStr (s "a"))))] resp1) /\
  outcome_of (go_ts_call [fl_cov] fl_cov sv_cov cov_md [] cov_req resp1)
    = outcome_of (ts_ts_call [fl_cov] fl_cov sv_cov cov_md [] cov_req resp1).
Proof. repeat match goal with |- _ /\ _ => split end; first [vm_compute; reflexivity | left; reflexivity]. Qed.

(* [path_vals_utf8]: a Go string that is not UTF-8 travels as %FF; decodeURIComponent throws, the TS server
   answers 500 (the Go server delivers the bytes) *)
Definition list_req_ff : mval :=
  [(s "tenant", FS (VStr [ch 255])); (s "q", FS (VStr (s "x"))); (s "limit", FS (VInt 1))].
Example C08_bodiless_needs_utf8 :
  defects_C08 GoTs [fl_list] fl_list sv_list list_md list_req_ff = [] /\
  wf_nobody [fl_list] fl_list sv_list list_md list_req_ff = true /\
  canonicalb (in_fields [fl_list] list_md) list_req_ff = true /\
  TsRtBodiless.path_vals_utf8 (in_fields [fl_list] list_md) list_req_ff [s "tenant"] = false /\
  outcome_of (go_ts_call [fl_list] fl_list sv_list list_md [] list_req_ff resp1) = Some OServerError /\
  option_map w_path (wire_of (go_ts_call [fl_list] fl_list sv_list list_md [] list_req_ff resp1)) = Some (s "/api/t/%FF/items") /\
  match go_call [fl_list] fl_list sv_list list_md CtJSON list_req_ff resp1 with
  | Ok (_, o) => Some o | Unmodelled _ => None end = Some (Delivered list_req_ff resp1).
Proof. repeat match goal with |- _ /\ _ => split end; first [vm_compute; reflexivity | left; reflexivity]. Qed.

(* [wf_nobody], non-empty path values: an empty path value leaves an empty segment no template accepts *)
Definition list_req_empty : mval := [(s "q", FS (VStr (s "x"))); (s "limit", FS (VInt 1))].
Example C08_bodiless_needs_path_value :
  defects_C08 TsTs [fl_list] fl_list sv_list list_md list_req_empty = [] /\
  path_vals_nonempty (in_fields [fl_list] list_md) list_req_empty [s "tenant"] = false /\
  outcome_of (ts_ts_call [fl_list] fl_list sv_list list_md [] list_req_empty resp1) = Some ONotRouted /\
  outcome_of (go_ts_call [fl_list] fl_list sv_list list_md [] list_req_empty resp1) = Some ONotRouted.
Proof. repeat match goal with |- _ /\ _ => split end; first [vm_compute; reflexivity | left; reflexivity]. Qed.

(* the two documented defect classes the defect list excludes are C08_refuted_path_param_string and
   C08_refuted_int64_query_absent above; a zero 64-bit PATH value is carried faithfully ("0" is sent) *)
Definition kinds_req0 : mval := [(s "b", FS (VBool true)); (s "i64", FS (VInt 1)); (s "s64", FS (VInt 1));
   (s "sf64", FS (VInt 1)); (s "u64", FS (VInt 1)); (s "f64", FS (VInt 1))].
Example C08_bodiless_zero_path_int64 :
  defects_C08 GoTs [fl_kinds] fl_kinds sv_kinds kinds_md kinds_req0 = [] /\
  wf_nobody [fl_kinds] fl_kinds sv_kinds kinds_md kinds_req0 = true /\
  option_map w_path (wire_of (go_ts_call [fl_kinds] fl_kinds sv_kinds kinds_md [] kinds_req0 resp1)) = Some (s "/api/k/0") /\
  match outcome_of (go_ts_call [fl_kinds] fl_kinds sv_kinds kinds_md [] kinds_req0 resp1) with
  | Some (ODelivered _ saw _) => (tget saw (s "id"), tget saw (s "i64")) | _ => (None, None) end
    = (None, Some (TsV (FS (VInt 1)))).
Proof. repeat match goal with |- _ /\ _ => split end; first [vm_compute; reflexivity | left; reflexivity]. Qed.
