(* C18 — each OpenAPI document is well-formed, complete and format-independent.
   Model: OpenApi.document_y (the YAML node tree protoc-gen-openapiv3 hands to the emitter for one
   service), Yaml.reader12 / reader11 (the .yaml file under a YAML 1.2 reader; the .json file, which
   the plugin obtains by re-reading that text with a YAML 1.1 resolver), OpenApi.emitted_files.
   defects_C18 classifies the INPUT (schema + service); every theorem concludes about the DOCUMENT. *)
From Sebuf Require Import JsonSchema Yaml Rules Route OpenApi OasCheck.
From SebufProofs Require Import OpenApiFacts OpenApiExamples.

(* In all theorems: st = the result of the message collection for the service, d = its document,
   and the input lies outside the defect classes. *)

(* every message reachable from the RPCs through message-typed fields has a component schema under
   its short name (this clause needs no defect hypothesis) *)
Theorem C18_reachable_have_schemas : forall sc sd sv st, collect_service sc sd sv = Some st ->
  forall fq m, reachable sc (method_roots sv) fq -> lookup_message sc fq = Some m ->
  In (short_name fq) (map fst (components_of_sets (cs_sets st))).
Proof. exact good_reachable_have_schemas. Qed.

(* ... and distinct collected messages have distinct component names *)
Theorem C18_components_distinct : forall sc sd sv st d,
  collect_service sc sd sv = Some st -> document_y sc sd sv = Some d -> defects_C18 sc sd sv = [] ->
  NoDup (map short_name (collected_messages sc st)).
Proof. exact good_components_distinct. Qed.

(* the references of every operation (request body, 200, 400, default) resolve *)
Theorem C18_refs_resolve_partial : forall sc sd sv st, collect_service sc sd sv = Some st ->
  forall md, In md (sv_methods sv) ->
  lookup_message sc (md_in md) <> None -> lookup_message sc (md_out md) <> None ->
  forall t, In t (refs_of (operation_node sc sv md)) -> ref_resolves (components_of_sets (cs_sets st)) t = true.
Proof. exact good_refs_resolve_partial. Qed.

(* the variables of the path template are exactly the declared path parameters, each declared
   once and required *)
Theorem C18_path_vars_iff_params : forall sc sd sv st d,
  collect_service sc sd sv = Some st -> document_y sc sd sv = Some d -> defects_C18 sc sd sv = [] ->
  forall md, In md (sv_methods sv) ->
  has_lbrace (sv_name sv) = false -> has_lbrace (md_name md) = false ->
  template_vars sv md = declared_vars sv md /\ NoDup (declared_vars sv md) /\
  (forall n l r sch, In (n, l, r, sch) (op_parameters sc sv md) -> l = s "path" -> r = true).
Proof. exact good_path_vars_iff_params. Qed.

(* parameter names are unique per location (header names compared without case) *)
Theorem C18_param_names_unique : forall sc sd sv st d,
  collect_service sc sd sv = Some st -> document_y sc sd sv = Some d -> defects_C18 sc sd sv = [] ->
  forall md, In md (sv_methods sv) -> NoDup (map param_key (op_parameters sc sv md)).
Proof. exact good_param_names_unique. Qed.

(* every RPC is an operation of the document, in order *)
Theorem C18_every_rpc_has_operation : forall sc sd sv st d,
  collect_service sc sd sv = Some st -> document_y sc sd sv = Some d -> defects_C18 sc sd sv = [] ->
  map snd (doc_ops sv) = sv_methods sv.
Proof. exact good_every_rpc_has_operation. Qed.

(* the .json rendering denotes the same document as the .yaml rendering *)
Theorem C18_json_eq_yaml : forall sc sd sv st d,
  collect_service sc sd sv = Some st -> document_y sc sd sv = Some d -> defects_C18 sc sd sv = [] ->
  denote reader11 d = denote reader12 d.
Proof. exact good_json_eq_yaml. Qed.

Print Assumptions C18_reachable_have_schemas.
Print Assumptions C18_components_distinct.
Print Assumptions C18_refs_resolve_partial.
Print Assumptions C18_path_vars_iff_params.
Print Assumptions C18_param_names_unique.
Print Assumptions C18_every_rpc_has_operation.
Print Assumptions C18_json_eq_yaml.

(* The full statement: EVERY reference of the document resolves, those inside component schemas and
   discriminator mappings included.  Proved above for the operations; what is missing for the
   components is the reference analysis of the five object-schema builders (plain, root unwrap,
   flatten, flattened and nested discriminated oneof).  The run evaluates it on every emitted document
   (oracle) and those documents are compared with the model's. *)
Definition C18_refs_resolve_full : Prop :=
  forall sc sd sv st d, collect_service sc sd sv = Some st -> document_y sc sd sv = Some d ->
  cs_unknown st = [] -> defects_C18 sc sd sv = [] ->
  forall t, In t (refs_of d) -> ref_resolves (components_of_sets (cs_sets st)) t = true.

(* operationIds are unique whenever the RPC names are (protoc guarantees that) *)
Theorem C18_operation_ids_unique : forall sv,
  NoDup (map md_name (sv_methods sv)) -> NoDup (map (fun e => md_name (snd e)) (doc_ops sv)).
Proof. exact operation_ids_unique. Qed.
Print Assumptions C18_operation_ids_unique.

(* one file per service of the files to generate, named <Service>.openapi.<yaml|json> by the format
   option; the names are distinct when the service names are *)
Theorem C18_one_doc_per_service : forall p sc,
  List.length (emitted_files p sc) = List.length (generated_services sc) /\
  (forall i sv, nth_error (generated_services sc) i = Some sv ->
     nth_error (emitted_files p sc) i = Some (sv_name sv ++ s ".openapi." ++ (if format_is_json p then s "json" else s "yaml"))) /\
  (NoDup (map sv_name (generated_services sc)) -> NoDup (emitted_files p sc)).
Proof. exact one_doc_per_service. Qed.
Print Assumptions C18_one_doc_per_service.

(* format option: json exactly for format=json (last pair wins, blanks trimmed); yaml, yml, anything
   else and no option give YAML *)
Example C18_format_parameter :
  map (fun p => format_is_json (s p)) [""; "format=yaml"; "format=yml"; "format=json"; "format= json"; "x=1,format=yaml,format=json"; "format=xml"; "format"]%string
  = [false; false; false; true; true; true; false; false].
Proof. vm_compute. reflexivity. Qed.

(* ---- refutations: an input in exactly one defect class and the clause that fails ------------------ *)
Theorem C18_refuted_short_name_collision :
  defects_C18 collide_schema no_side collide_service = [ShortNameCollision] /\
  exists st, collect_service collide_schema no_side collide_service = Some st /\
    In (s "a.Outer.Item") (cs_visited st) /\ In (s "a.Other.Item") (cs_visited st) /\
    List.length (filter (fun e => str_eqb (fst e) (s "Item")) (components_of_sets (cs_sets st))) = 1.
Proof. exact refuted_short_name_collision. Qed.
Theorem C18_refuted_builtin_name :
  defects_C18 builtin_schema no_side collide_service = [BuiltinNameCollision] /\
  exists st, collect_service builtin_schema no_side collide_service = Some st /\
    exists n, find (fun e => str_eqb (fst e) (s "Error")) (components_of_sets (cs_sets st)) = Some (s "Error", n) /\
              find (fun e => str_eqb (fst e) (s "Error")) builtin_sets <> Some (s "Error", n).
Proof. exact refuted_builtin_name. Qed.
Theorem C18_refuted_header_case_duplicate :
  defects_C18 (no_query_schema [hdr_service]) no_side hdr_service = [HeaderCaseDuplicate] /\
  ~ NoDup (map param_key (op_parameters (no_query_schema [hdr_service]) hdr_service (rpc "Do" "a.Req" "a.Req" "/do" 2))).
Proof. exact refuted_header_case_duplicate. Qed.
Theorem C18_refuted_shared_route :
  defects_C18 (no_query_schema [shared_service]) no_side shared_service = [SharedRoute] /\
  map (fun e => md_name (snd e)) (doc_ops shared_service) = [s "Second"].
Proof. exact refuted_shared_route. Qed.
Theorem C18_refuted_duplicate_path_variable :
  defects_C18 (no_query_schema [twice_service]) no_side twice_service = [DuplicatePathVariable] /\
  ~ NoDup (map param_key (op_parameters (no_query_schema [twice_service]) twice_service (rpc "Do" "a.Req" "a.Req" "/a/{id}/b/{id}" 1))).
Proof. exact refuted_duplicate_path_variable. Qed.
Theorem C18_refuted_base_path_variable :
  defects_C18 (no_query_schema [basevar_service]) no_side basevar_service = [BasePathVariable] /\
  template_vars basevar_service (rpc "Do" "a.Req" "a.Req" "/items/{id}" 1) = [s "org"; s "id"] /\
  declared_vars basevar_service (rpc "Do" "a.Req" "a.Req" "/items/{id}" 1) = [s "id"].
Proof. exact refuted_base_path_variable. Qed.
Theorem C18_refuted_duplicate_query_name :
  defects_C18 (plain_req_schema [query_service]) no_side query_service = [DuplicateQueryName] /\
  ~ NoDup (map param_key (op_parameters (plain_req_schema [query_service]) query_service (rpc "Do" "a.Req" "a.Req" "/do" 1))).
Proof. exact refuted_duplicate_query_name. Qed.
Theorem C18_refuted_yaml11_bool_word :
  defects_C18 yaml11_schema no_side query_service = [Yaml11BoolWord] /\
  exists d, document_y yaml11_schema no_side query_service = Some d /\ ynode_unknowns d = [] /\
            jv_eqb (dedupe_jv (denote reader11 d)) (dedupe_jv (denote reader12 d)) = false.
Proof. exact refuted_yaml11_bool_word. Qed.
Theorem C18_refuted_service_name_collision :
  has_dup (map sv_name (generated_services two_files)) = true /\ ~ NoDup (emitted_files (s "format=json") two_files) /\
  emitted_files (s "format=json") two_files = [s "Same.openapi.json"; s "Same.openapi.json"].
Proof. exact refuted_service_name_collision. Qed.

(* the hypotheses are satisfiable by a schema with nested and recursive types, a map field, path and
   query parameters, service and method headers and two RPCs *)
Example C18_nonvacuous :
  defects_C18 good_schema no_side good_service = [] /\
  (exists st, collect_service good_schema no_side good_service = Some st /\
              map fst (components_of_sets (cs_sets st))
              = [s "Error"; s "FieldViolation"; s "ValidationError"; s "GetReq"; s "Tree"; s "AttrsEntry"; s "Leaf"; s "PutReq"]) /\
  map (fun e => md_name (snd e)) (doc_ops good_service) = [s "GetTree"; s "PutTree"] /\
  map param_key (op_parameters good_schema good_service (nth 1 (sv_methods good_service) (rpc "" "" "" "" 0)))
  = [(s "header", s "x-tenant"); (s "header", s "x-trace"); (s "path", s "id")].
Proof. exact good_is_good. Qed.

(* ---- every reference of the document resolves (the full clause) ----------------------------------- *)
From SebufProofs Require Import OpenApiRefsFacts.

(* EVERY `$ref` and every discriminator mapping target of the document (operations, component schemas
   of the five object-schema shapes, map entries, discriminator tables) names a component of the same
   document.  Two side conditions say what protoc guarantees about a request and the Schema.v AST does
   not enforce: message full names are unique, and no map key is a message.  The defect hypothesis of
   C18_refs_resolve_full is not needed for this clause. *)
Theorem C18_refs_resolve : forall sc sd sv st d,
  unique_message_names sc = true -> scalar_map_keys sc = true ->
  collect_service sc sd sv = Some st -> document_y sc sd sv = Some d -> cs_unknown st = [] ->
  forall t, In t (refs_of d) -> ref_resolves (components_of_sets (cs_sets st)) t = true.
Proof. exact refs_resolve_full. Qed.
Print Assumptions C18_refs_resolve.

(* the same under exactly the hypotheses of C18_refs_resolve_full *)
Theorem C18_refs_resolve_good : forall sc sd sv st d,
  unique_message_names sc = true -> scalar_map_keys sc = true ->
  collect_service sc sd sv = Some st -> document_y sc sd sv = Some d ->
  cs_unknown st = [] -> defects_C18 sc sd sv = [] ->
  forall t, In t (refs_of d) -> ref_resolves (components_of_sets (cs_sets st)) t = true.
Proof. exact refs_resolve_full_good. Qed.
Print Assumptions C18_refs_resolve_good.

(* C18_refs_resolve_full as first stated (no side condition) is false in the model *)
Theorem C18_refs_resolve_full_refuted : ~ C18_refs_resolve_full.
Proof. exact refs_resolve_unconditional_refuted. Qed.
Print Assumptions C18_refs_resolve_full_refuted.

(* a full name declared twice: the second declaration's schema is registered, its field types are not collected *)
Example C18_refs_resolve_needs_unique_names :
  unique_message_names dup_schema = false /\ scalar_map_keys dup_schema = true /\
  defects_C18 dup_schema no_side dup_service = [] /\
  exists st d, collect_service dup_schema no_side dup_service = Some st /\
    document_y dup_schema no_side dup_service = Some d /\ cs_unknown st = [] /\
    In (ref_prefix ++ s "Z") (refs_of d) /\
    ref_resolves (components_of_sets (cs_sets st)) (ref_prefix ++ s "Z") = false.
Proof. exact refs_resolve_needs_unique_names. Qed.

(* a message as map key: the entry schema refers to it, the collection follows the value field only *)
Example C18_refs_resolve_needs_scalar_map_keys :
  unique_message_names mapkey_schema = true /\ scalar_map_keys mapkey_schema = false /\
  defects_C18 mapkey_schema no_side dup_service = [] /\
  exists st d, collect_service mapkey_schema no_side dup_service = Some st /\
    document_y mapkey_schema no_side dup_service = Some d /\ cs_unknown st = [] /\
    In (ref_prefix ++ s "K") (refs_of d) /\
    ref_resolves (components_of_sets (cs_sets st)) (ref_prefix ++ s "K") = false.
Proof. exact refs_resolve_needs_scalar_map_keys. Qed.

(* the hypotheses hold on a schema with a recursive message with a nested declaration, a map of
   messages and a Timestamp, a nested and a flattened discriminated oneof, a flatten field with prefix
   and a root unwrap that is also a map value; its 30 references include variant components and
   discriminator mapping targets *)
Example C18_refs_resolve_nonvacuous :
  unique_message_names refs_schema = true /\ scalar_map_keys refs_schema = true /\
  defects_C18 refs_schema no_side refs_service = [] /\
  exists st d, collect_service refs_schema no_side refs_service = Some st /\
    document_y refs_schema no_side refs_service = Some d /\ cs_unknown st = [] /\
    map fst (components_of_sets (cs_sets st))
    = map s ["Error"; "FieldViolation"; "ValidationError"; "Req"; "GroupsEntry"; "Tree"; "AttrsEntry"; "Leaf"; "Timestamp";
             "Event"; "Click"; "Scroll"; "Shape_circle"; "Shape_square"; "Shape"; "Circle"; "Point"; "Square";
             "Wrapper"; "Meta"; "Owner"; "ItemList"; "Item"; "Resp"]%string /\
    refs_of d
    = map (fun n => ref_prefix ++ s n)
          ["Req"; "Resp"; "ValidationError"; "Error"; "FieldViolation"; "Tree"; "Event"; "Shape"; "Wrapper"; "Item"; "ItemList";
           "Tree"; "Leaf"; "Leaf"; "Leaf"; "Click"; "Scroll"; "Click"; "Scroll"; "Tree"; "Point";
           "Shape_circle"; "Shape_square"; "Shape_circle"; "Shape_square"; "Point"; "Owner"; "Owner"; "Item"; "ItemList"]%string.
Proof. exact refs_nonvacuous. Qed.
