(* C17 — a request's outcome does not depend on other requests: the logic of the shared state.
   The Go memory model, net/http and protobuf internals are not modelled; data races in the real
   process are searched for with the race detector by the check (search, not proof). *)
From Sebuf Require Import Conc.
From SebufProofs Require Import ConcFacts.

Theorem C17_isolation : forall reqs sched sh' ts',
  run_sched init_shared (init_threads reqs) sched = (sh', ts') ->
  sh_next sh' <= 1 /\ forall req r v, In (req, TDone (r, v)) ts' -> r = req /\ v = 0.
Proof. exact isolation. Qed.
Print Assumptions C17_isolation.

Theorem C17_routes_unshared : forall methods get var m h,
  In (m, h) (register var methods get []) -> h = get m.
Proof. exact routes_unshared. Qed.
Print Assumptions C17_routes_unshared.

Theorem C17_call_options_local : forall defaults c1 c2 ct,
  call_headers defaults c1 ct = (s "Content-Type", ct) :: defaults ++ c1 /\
  (c1 = c2 -> call_headers defaults c1 ct = call_headers defaults c2 ct).
Proof. exact call_options_local. Qed.
Print Assumptions C17_call_options_local.

Example C17_nonvacuous :
  let '(sh, ts) := run_sched init_shared (init_threads [7; 8; 9]) [2; 0; 1; 1; 2; 0] in
  sh_next sh = 1 /\ ts = [(7, TDone (7, 0)); (8, TDone (8, 0)); (9, TDone (9, 0))].
Proof. vm_compute. split; reflexivity. Qed.
