(* C17 — a request's outcome does not depend on other requests: the logic of the shared state.
   The Go memory model, net/http and protobuf internals are not modelled; data races in the real
   process are searched for with the race detector by the check (search, not proof). *)
From Sebuf Require Import Conc.
From SebufProofs Require Import ConcFacts.

Theorem C17_isolation : forall reqs sched sh' ts',
  run_sched init_shared (init_threads reqs) sched = (sh', ts') ->
  sh_next sh' <= 1 /\ forall req r v, In (req, TDone (r, v)) ts' -> r = req /\ v = 0.
Proof. exact isolation. Qed.
Print Assumptions C17_isolation.

Theorem C17_routes_unshared : forall methods get var m h,
  In (m, h) (register var methods get []) -> h = get m.
Proof. exact routes_unshared. Qed.
Print Assumptions C17_routes_unshared.

Theorem C17_call_options_local : forall defaults c1 c2 ct,
  call_headers defaults c1 ct = (s "Content-Type", ct) :: defaults ++ c1 /\
  (c1 = c2 -> call_headers defaults c1 ct = call_headers defaults c2 ct).
Proof. exact call_options_local. Qed.
Print Assumptions C17_call_options_local.

Example C17_nonvacuous :
  let '(sh, ts) := run_sched init_shared (init_threads [7; 8; 9]) [2; 0; 1; 1; 2; 0] in
  sh_next sh = 1 /\ ts = [(7, TDone (7, 0)); (8, TDone (8, 0)); (9, TDone (9, 0))].
Proof. vm_compute. split; reflexivity. Qed.

(* ---- sibling routes: per-route configuration is never shared -------------------------------------- *)
From Sebuf Require Import Headers.

Theorem C17_routes_config_isolated : forall svc var methods m hs rq bv bok,
  NoDup (map fst methods) -> In (m, hs) methods ->
  serve_route (register_routes svc var methods []) m rq bv bok = Some (go_serve svc hs rq bv bok).
Proof. exact routes_config_isolated. Qed.
Print Assumptions C17_routes_config_isolated.

Theorem C17_route_as_alone : forall svc var var' methods m hs rq bv bok,
  NoDup (map fst methods) -> In (m, hs) methods ->
  serve_route (register_routes svc var methods []) m rq bv bok =
  serve_route (register_routes svc var' [(m, hs)] []) m rq bv bok.
Proof. exact route_as_alone. Qed.
Print Assumptions C17_route_as_alone.

(* ---- call sequences on shared client instances: no history dependence -------------------------------- *)
Theorem C17_history_independent : forall w pre c post,
  nth_error (run_calls w (pre ++ c :: post)) (List.length pre) = nth_error (run_calls w [c]) 0.
Proof. exact history_independent. Qed.
Print Assumptions C17_history_independent.

Theorem C17_own_instance_only : forall w w' c,
  nth_error w (cc_client c) = nth_error w' (cc_client c) -> snd (do_call w c) = snd (do_call w' c).
Proof. exact own_instance_only. Qed.
Print Assumptions C17_own_instance_only.

Theorem C17_plain_call_defaults : forall w c cl,
  nth_error w (cc_client c) = Some cl -> cc_ct c = [] -> cc_headers c = [] -> stage_sends (cc_stage c) = true ->
  snd (do_call w c) =
  Some {| co_sent := Some (hset_all ((s "Content-Type", cl_ct cl) :: cl_defaults cl)); co_ok := stage_ok (cc_stage c) |}.
Proof. exact plain_call_defaults. Qed.
Print Assumptions C17_plain_call_defaults.

(* a service with one optional and one required service header and two routes with a required header
   each: route A is judged by X-A, not by the sibling's X-B *)
Example C17_routes_nonvacuous :
  let svc := [ {| h_name := s "X-Trace"; h_type := s "string"; h_required := false; h_format := [] |};
               {| h_name := s "X-Api-Key"; h_type := s "string"; h_required := true; h_format := [] |} ] in
  let a := [ {| h_name := s "X-A"; h_type := s "string"; h_required := true; h_format := [] |} ] in
  let b := [ {| h_name := s "X-B"; h_type := s "string"; h_required := true; h_format := [] |} ] in
  let table := register_routes svc [] [(s "A", a); (s "B", b)] [] in
  option_map o_status (serve_route table (s "A") [(s "X-Api-Key", s "k"); (s "X-A", s "1")] true true) = Some 200%Z /\
  option_map o_violations (serve_route table (s "A") [(s "X-Api-Key", s "k"); (s "X-B", s "1")] true true) = Some [s "X-A"] /\
  option_map o_status (serve_route table (s "B") [(s "X-Api-Key", s "k"); (s "X-B", s "1")] true true) = Some 200%Z.
Proof. vm_compute. repeat split; reflexivity. Qed.

(* a call with per-call options that cannot be marshalled, then a plain call on the same instance and
   on another instance: the plain calls carry exactly Content-Type and their instance's defaults *)
Example C17_sequence_nonvacuous :
  let w := [ {| cl_ct := s "application/json"; cl_defaults := [(s "X-Client-Tag", s "c0")] |};
             {| cl_ct := s "application/x-protobuf"; cl_defaults := [] |} ] in
  let dirty := {| cc_client := 0; cc_ct := s "application/x-protobuf"; cc_headers := [(s "X-Tenant", s "t1")]; cc_stage := StMarshal |} in
  let plain k := {| cc_client := k; cc_ct := []; cc_headers := []; cc_stage := StOk |} in
  run_calls w [dirty; plain 0; plain 1] =
  [ Some {| co_sent := None; co_ok := false |};
    Some {| co_sent := Some [(s "content-type", s "application/json"); (s "x-client-tag", s "c0")]; co_ok := true |};
    Some {| co_sent := Some [(s "content-type", s "application/x-protobuf")]; co_ok := true |} ].
Proof. vm_compute. reflexivity. Qed.

(* ---- routes over a shared request message: each route binds with its own path variables ------------- *)
Theorem C17_shared_message_isolated : forall table r pre rq post,
  NoDup (map sr_name table) -> In r table -> sq_route rq = sr_name r ->
  nth_error (run_shared table (pre ++ rq :: post)) (List.length pre) = Some (Some (serve_shared r rq)).
Proof. exact shared_message_isolated. Qed.
Print Assumptions C17_shared_message_isolated.

Theorem C17_shared_message_as_alone : forall table r pre rq post,
  NoDup (map sr_name table) -> In r table -> sq_route rq = sr_name r ->
  nth_error (run_shared table (pre ++ rq :: post)) (List.length pre) = nth_error (run_shared [r] [rq]) 0.
Proof. exact shared_message_as_alone. Qed.
Print Assumptions C17_shared_message_as_alone.

Theorem C17_undeclared_variable_unbound : forall params pv f m m',
  ~ In f params -> bind_path params pv m = SDispatch m' -> flookup f m' = flookup f m.
Proof. intros params pv f m m' Hn H. exact (bind_path_undeclared params pv f Hn m m' H). Qed.
Print Assumptions C17_undeclared_variable_unbound.

(* POST /projects/{project_id}/items and PUT /projects/{project_id}/items/{id} over one message, called
   in both orders: create never binds {id} (the body's value stays), update always does *)
Example C17_shared_nonvacuous :
  let create := {| sr_name := s "CreateItem"; sr_body := true; sr_path := [s "project_id"]; sr_query := [] |} in
  let update := {| sr_name := s "UpdateItem"; sr_body := true; sr_path := [s "project_id"; s "id"]; sr_query := [] |} in
  let c := {| sq_route := s "CreateItem"; sq_path := [(s "project_id", s "p1")]; sq_query := []; sq_body := [(s "id", s "b"); (s "name", s "n")] |} in
  let u := {| sq_route := s "UpdateItem"; sq_path := [(s "project_id", s "p2"); (s "id", s "i2")]; sq_query := []; sq_body := [(s "id", s "b"); (s "name", s "n")] |} in
  let rc := Some (SDispatch [(s "id", s "b"); (s "name", s "n"); (s "project_id", s "p1")]) in
  let ru := Some (SDispatch [(s "id", s "i2"); (s "name", s "n"); (s "project_id", s "p2")]) in
  run_shared [create; update] [c; u] = [rc; ru] /\ run_shared [create; update] [u; c] = [ru; rc].
Proof. vm_compute. split; reflexivity. Qed.

(* ---- registration histories: ServerOptions of one Register call never reach another (C17g) ---------- *)
Theorem C17_registration_as_alone : forall regs i r q,
  NoDup (map mkey (register_all 0 regs)) -> nth_error regs i = Some r ->
  rq_key q = mkey (mount i r) ->
  serve_reg (register_all 0 regs) q = serve_reg [mount i r] q.
Proof. exact registration_as_alone. Qed.
Print Assumptions C17_registration_as_alone.

Theorem C17_registration_own_options_only : forall k svc opts,
  ((forall o, In o opts -> is_hook o = false) -> mt_hook (mount k (svc, opts)) = None) /\
  ((forall o, In o opts -> is_mux o = false) -> mt_mux (mount k (svc, opts)) = []).
Proof. exact own_options_only. Qed.
Print Assumptions C17_registration_own_options_only.

(* Alpha with an error handler on mux m1, then Beta with no options, then Alpha again on m2 without a
   handler: Beta is on the default mux and answers 500 unhooked; Alpha on m2 is unhooked; nothing of
   Beta's is on m1 *)
Example C17_registration_nonvacuous :
  let regs := [(s "Alpha", [OMux (s "m1"); OHook (s "h0") 470%Z]); (s "Beta", []); (s "Alpha", [OMux (s "m2")])] in
  let t := register_all 0 regs in
  serve_reg t {| rq_mux := s "m1"; rq_svc := s "Alpha"; rq_fails := true |} = (470%Z, Some 0, s "h0") /\
  serve_reg t {| rq_mux := []; rq_svc := s "Beta"; rq_fails := true |} = (500%Z, Some 1, []) /\
  serve_reg t {| rq_mux := s "m1"; rq_svc := s "Beta"; rq_fails := false |} = (404%Z, None, []) /\
  serve_reg t {| rq_mux := s "m2"; rq_svc := s "Alpha"; rq_fails := true |} = (500%Z, Some 2, []).
Proof. vm_compute. repeat split; reflexivity. Qed.
