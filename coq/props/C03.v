(* C03 — All five generators agree on each RPC's verb, path and parameter placement.
   Only statements, [exact <lemma>], Print Assumptions. *)
From Sebuf Require Import Text Route.
From SebufProofs Require Import RouteFacts.

(* For every RPC outside the four known defect classes, the five route functions coincide. *)
Theorem C03_agree : forall r : rpc_info, defects_C03 r = [] ->
  go_server r = go_client r /\ go_client r = ts_client r /\
  ts_client r = ts_server r /\ ts_server r = openapi r.
Proof. exact agree_all. Qed.
Print Assumptions C03_agree.

(* When the RPCs of a service have pairwise distinct (path, verb), each is exactly one operation. *)
Theorem C03_one_operation : forall rs : list rpc_info,
  NoDup (keys_of rs) -> NoDup (map ri_method rs) ->
  forall r, In r rs -> count_ops_for (ri_method r) (openapi_ops rs) = 1.
Proof. exact one_operation. Qed.
Print Assumptions C03_one_operation.

(* Non-vacuity: an RPC with base path, path variables and a GET query satisfies the hypotheses. *)
Definition ex_rpc : rpc_info :=
  {| ri_service := s "Users"; ri_gopkg := s "users"; ri_base := s "/api/v1/"; ri_method := s "GetUserByID";
     ri_has_cfg := true; ri_path := s "users/{user_id}/posts/{post_id}"; ri_verb := Some GET;
     ri_query := [s "page"; s "limit"] |}.
Example C03_nonvacuous :
  defects_C03 ex_rpc = [] /\ rt_path (go_server ex_rpc) = s "/api/v1/users/{user_id}/posts/{post_id}"
  /\ rt_pathvars (openapi ex_rpc) = [s "user_id"; s "post_id"].
Proof. vm_compute. repeat split; reflexivity. Qed.

(* Refutations: each defect class has a concrete RPC on which the generators disagree. *)
Definition ex_default : rpc_info :=
  {| ri_service := s "Users"; ri_gopkg := s "userspb"; ri_base := []; ri_method := s "CreateUser";
     ri_has_cfg := false; ri_path := []; ri_verb := None; ri_query := [] |}.
Theorem C03_refuted_default_path :
  defects_C03 ex_default = [DefaultPath] /\
  rt_path (go_server ex_default) = s "/userspb/create_user" /\
  rt_path (go_client ex_default) = s "/createUser" /\
  rt_path (openapi ex_default) = s "/Users/CreateUser".
Proof. vm_compute. repeat split; reflexivity. Qed.

Definition ex_base_noslash : rpc_info :=
  {| ri_service := s "S"; ri_gopkg := s "p"; ri_base := s "api"; ri_method := s "Get";
     ri_has_cfg := true; ri_path := s "/x"; ri_verb := Some GET; ri_query := [] |}.
Theorem C03_refuted_base_no_leading_slash :
  defects_C03 ex_base_noslash = [BaseNoLeadingSlash] /\
  rt_path (go_server ex_base_noslash) = s "api/x" /\ rt_path (go_client ex_base_noslash) = s "/api/x".
Proof. vm_compute. repeat split; reflexivity. Qed.

Definition ex_path_noslash : rpc_info :=
  {| ri_service := s "S"; ri_gopkg := s "p"; ri_base := []; ri_method := s "Get";
     ri_has_cfg := true; ri_path := s "x/{id}"; ri_verb := Some GET; ri_query := [] |}.
Theorem C03_refuted_path_no_leading_slash :
  defects_C03 ex_path_noslash = [PathNoLeadingSlashNoBase] /\
  rt_path (go_server ex_path_noslash) = s "x/{id}" /\ rt_path (ts_server ex_path_noslash) = s "/x/{id}".
Proof. vm_compute. repeat split; reflexivity. Qed.

Definition ex_query_body : rpc_info :=
  {| ri_service := s "S"; ri_gopkg := s "p"; ri_base := []; ri_method := s "Put";
     ri_has_cfg := true; ri_path := s "/x/{id}"; ri_verb := Some PUT; ri_query := [s "page"] |}.
Theorem C03_refuted_query_on_body_verb :
  defects_C03 ex_query_body = [QueryOnBodyVerb] /\
  rt_query (go_server ex_query_body) = [s "page"] /\ rt_query (go_client ex_query_body) = [] /\
  rt_query (openapi ex_query_body) = [s "page"].
Proof. vm_compute. repeat split; reflexivity. Qed.

(* Two RPCs sharing (path, verb): the OpenAPI document keeps only the later one. *)
Theorem C03_refuted_shared_route : forall r1 r2,
  route_key (openapi r1) = route_key (openapi r2) -> ri_method r1 <> ri_method r2 ->
  count_ops_for (ri_method r1) (openapi_ops [r1; r2]) = 0.
Proof. exact shared_key_loses_one. Qed.
Print Assumptions C03_refuted_shared_route.

(* Template family: RPCs of one service on the same path hierarchy whose variables are named
   differently (the variable has to be spelled like the request field: GetItemReq.id vs
   DeleteItemReq.item_id).  None of them is in a defect class, every generator keeps the RPC's own
   template and path fields, and the OpenAPI document holds one operation per RPC, each under the
   template of its own RPC (a path item is shared only by RPCs whose templates are spelled alike). *)
Definition ex_family : list rpc_info :=
  [ {| ri_service := s "Items"; ri_gopkg := s "items"; ri_base := s "/api/v1"; ri_method := s "GetItem";
       ri_has_cfg := true; ri_path := s "/items/{id}"; ri_verb := Some GET; ri_query := [] |};
    {| ri_service := s "Items"; ri_gopkg := s "items"; ri_base := s "/api/v1"; ri_method := s "DeleteItem";
       ri_has_cfg := true; ri_path := s "/items/{item_id}"; ri_verb := Some DELETE; ri_query := [] |};
    {| ri_service := s "Items"; ri_gopkg := s "items"; ri_base := s "/api/v1"; ri_method := s "PutItem";
       ri_has_cfg := true; ri_path := s "/items/{id}"; ri_verb := Some PUT; ri_query := [] |} ].
Example C03_template_family :
  forallb (fun r => match defects_C03 r with [] => true | _ => false end) ex_family = true /\
  map (fun r => rt_path (openapi r)) ex_family =
    [s "/api/v1/items/{id}"; s "/api/v1/items/{item_id}"; s "/api/v1/items/{id}"] /\
  map (fun r => rt_pathvars (openapi r)) ex_family = [[s "id"]; [s "item_id"]; [s "id"]] /\
  map (fun r => rt_pathvars (go_server r)) ex_family = [[s "id"]; [s "item_id"]; [s "id"]] /\
  map (fun r => count_ops_for (ri_method r) (openapi_ops ex_family)) ex_family = [1; 1; 1]%nat /\
  map (fun e => fst (fst e)) (openapi_ops ex_family) =
    [s "/api/v1/items/{id}"; s "/api/v1/items/{item_id}"; s "/api/v1/items/{id}"].
Proof. vm_compute. repeat split; reflexivity. Qed.

(* Body shapes: what is left for the body once the URL has taken its fields does not matter — an RPC on
   POST/PUT/PATCH (or on the defaulted verb) is body-carrying for all five generators even when its
   request message is empty or fully path-bound ("action" endpoints such as POST /notes/{id}/archive),
   and GET/DELETE never are. *)
Theorem C03_body_by_verb : forall r : rpc_info,
  rt_body (go_server r) = verb_has_body (eff_verb r) /\
  rt_body (go_client r) = verb_has_body (eff_verb r) /\
  rt_body (ts_client r) = verb_has_body (eff_verb r) /\
  rt_body (ts_server r) = verb_has_body (eff_verb r) /\
  rt_body (openapi r) = verb_has_body (eff_verb r).
Proof. exact body_by_verb. Qed.
Print Assumptions C03_body_by_verb.

Theorem C03_body_same_verb : forall r1 r2 : rpc_info, eff_verb r1 = eff_verb r2 ->
  rt_body (go_client r1) = rt_body (go_server r2) /\ rt_body (go_client r1) = rt_body (openapi r2) /\
  rt_body (go_client r1) = rt_body (ts_server r2) /\ rt_body (go_client r1) = rt_body (ts_client r2).
Proof. exact body_same_verb. Qed.
Print Assumptions C03_body_same_verb.

Definition mk_note (m p : str) (v : option verb) (q : list str) : rpc_info :=
  {| ri_service := s "NoteService"; ri_gopkg := s "notes"; ri_base := s "/api/v1"; ri_method := m;
     ri_has_cfg := true; ri_path := p; ri_verb := v; ri_query := q |}.
(* ArchiveNote{id}, TagNote{id,tag}, PurgeTrash{} (verb defaulted), PatchNote{id} ; controls GetNote{id}, DropNote{id} *)
Definition ex_body_shapes : list rpc_info :=
  [ mk_note (s "ArchiveNote") (s "/notes/{id}/archive") (Some POST) [];
    mk_note (s "TagNote") (s "/notes/{id}/tags/{tag}") (Some PUT) [];
    mk_note (s "PurgeTrash") (s "/trash/purge") None [];
    mk_note (s "PatchNote") (s "/notes/{id}") (Some PATCH) [];
    mk_note (s "GetNote") (s "/notes/{id}") (Some GET) [];
    mk_note (s "DropNote") (s "/notes/{id}") (Some DELETE) [] ].
Example C03_body_shape_family :
  forallb (fun r => match defects_C03 r with [] => true | _ => false end) ex_body_shapes = true /\
  map (fun r => rt_body (go_client r)) ex_body_shapes = [true; true; true; true; false; false] /\
  map (fun r => rt_body (go_server r)) ex_body_shapes = [true; true; true; true; false; false] /\
  map (fun r => rt_body (ts_client r)) ex_body_shapes = [true; true; true; true; false; false] /\
  map (fun r => rt_body (ts_server r)) ex_body_shapes = [true; true; true; true; false; false] /\
  map (fun r => rt_body (openapi r)) ex_body_shapes = [true; true; true; true; false; false] /\
  map (fun r => rt_pathvars (go_client r)) ex_body_shapes =
    [[s "id"]; [s "id"; s "tag"]; []; [s "id"]; [s "id"]; [s "id"]].
Proof. vm_compute. repeat split; reflexivity. Qed.
