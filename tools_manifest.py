#!/usr/bin/env python3
# Regenerates MANIFEST.json from the table below (kept in one place so it stays valid).
import json, sys
ALL = ["C%02d" % i for i in range(1, 21)]
CLAIMED = {
 "C03": dict(
   text="Coq theorems C03_agree / C03_one_operation (all RPC configurations, unbounded strings) over a hand-written model of the five generators' route functions; every run re-evaluates the model inside Coq (vm_compute) on the routes extracted from the artefacts the five plugins emit from /repo's working tree and compares them case by case; outside the defect classes the theorem applies, inside them the model must reproduce the disagreement exactly (known findings).",
   note="Trusted: Coq kernel + vm_compute; the hand-written model (coq/theories/Route.v, Text.v) whose tie to the code is the per-run correspondence on the catalogue/random services (sampled schemas, not all); regex/YAML extractors of the harness. No axioms.",
   technique="Coq proof (induction over strings/RPC lists) + per-run model/implementation correspondence by vm_compute",
   ref="§5.C03"),
}
CLAIMED["C01"] = dict(
   text="Coq model of the emitted Go client (URL building, escaping, query encoding, body format choice) and Go server (ServeMux matching incl. path cleaning and wildcard rules, path/query binding, strconv conversions, body handling) in coq/theories/GoRt.v with the delivery theorems in props/C01.v (all schemas/values outside the listed defect classes); every run drives the generated client against the generated server (compiled from /repo's working tree) on the runtime catalogue, a byte sweep of path/query values and seeded random values, evaluates the model in Coq on the same cases and compares request line, dispatch, handler-seen and caller-seen values; the oracle (handler saw = sent, caller got = returned) is evaluated on the implementation alone.",
   note="Trusted: Coq kernel + vm_compute; hand-written model tied by sampled correspondence; bodies are modelled as (format, value) pairs, i.e. WHICH codec each side applies, the codecs themselves are C04/C05; float kinds on the URL are outside the model (direct oracle only); net/http behaviour is modelled for the patterns sebuf emits; protovalidate is stubbed.",
   technique="Coq proof (string/number round trips, route matching) + client/server correspondence by vm_compute",
   ref="§5.C01")
CLAIMED["C02"] = dict(
   text="Coq model of the emitted Go server facing arbitrary request lines and bodies (coq/theories/GoRtRaw.v on top of GoRt.v: route lookup, path binding, query binding incl. repeated and required parameters, strconv conversions, body reset) with theorems in props/C02.v; every run sends raw HTTP/1.1 requests (valid, out-of-range, malformed, percent-encoded, repeated URL values x absent/empty/{}/partial bodies x JSON/binary) to the generated server, compares dispatch/rejection/handler-seen value with the model evaluated in Coq, and evaluates an independent oracle (the harness's own reading of the URL) on the implementation.",
   note="Trusted: Coq kernel + vm_compute; hand-written model tied by sampled correspondence; float URL kinds are checked by the oracle only; the TS server and the OpenAPI parameter list are not part of this check (see C03/C08).",
   technique="Coq proof over the server model + raw-request correspondence by vm_compute",
   ref="§5.C02")
CLAIMED["C16"] = dict(
   text="Coq theorems about the plugins' message-graph walks (coq/theories/Traverse.v): the visited-set guarded walks terminate on every finite graph (C16_visited_terminates, by a decreasing unvisited-count measure), the mock emitter's unguarded walk terminates on acyclic response types and provably never terminates on cyclic ones (refutation for generate_mock=true). Every run executes all five plugins under wall-clock and address-space limits on stress descriptors (recursive, mutually recursive, deep, wide, empty, package-less, no go_package, long names, well-known types, seeded random graphs) x parameters and compares answered/failed with the model's verdict on the real descriptor graph.",
   note="Partial by nature: the theorems cover traversal logic; crashes, memory and wall-clock of the real processes are observed (10 s / 1-6 GiB limits), not proved. Trusted: Coq kernel, the graph extraction from descriptors, process sandboxing.",
   technique="Coq proof (termination measure / non-termination by induction on fuel) + sandboxed plugin runs",
   ref="§5.C16")
CLAIMED["C11"] = dict(
   text="Coq model of the decision logic of the emitted body readers, the shared structure of the custom UnmarshalJSON emitters (conversion errors dropped, raw value handed to protojson) and the Go client's response handling (coq/theories/Malformed.v); theorems C11_total, C11_no_partial (outside three defect classes the server dispatches exactly the bodies that were read and decoded completely under the declared formats), C11_clients_total. Every run sends mutated JSON/binary bodies (truncation, wrong types per field, duplicate keys, deep nesting, huge numbers, invalid UTF-8, invalid wire data, top-level null/array/scalar), failing body readers (fault sequences) and canned server responses to the generated code of every feature package that builds; the harness's own decoders classify each body, the model predicts dispatch/reject, and a strict oracle compares what was dispatched with a reference decoding.",
   note="Partial by nature: panics/hangs of the real process cannot be exhibited by a total model and are searched for (recover + deadline in the runner) - that part is exploration, not proof. Text-level conversions (hex/base64/dates/JSON syntax) are inputs of the model computed by the harness with Go's standard library. Messages whose custom decoder stages are not reproduced by the reference reading (nullable, empty_behavior, flatten, oneof, unwrap) get the robustness oracle only.",
   technique="Coq proof over the decision model + mutation/fault-injection correspondence",
   ref="§5.C11")
CLAIMED["C17"] = dict(
   text="Coq model of the shared state touched by concurrent calls (validator singleton behind sync.Once, per-route configuration passed by value at registration, client default headers vs per-call options) in coq/theories/Conc.v with C17_isolation proved for EVERY schedule (induction over the schedule with a one-instance invariant), C17_routes_unshared, C17_call_options_local. Every run builds the generated server and client with the Go race detector, issues random multisets of calls over multi-service schemas at parallelism 1-32 against ONE shared server mux and ONE shared client per service, and compares each call's result and headers with the same call issued alone; race reports or a crash of the process are violations.",
   note="Partial by nature: the Go memory model, net/http and protobuf internals are not modelled; the race detector and the isolation comparison are search, not proof. Trusted: Coq kernel, the runner.",
   technique="Coq proof (invariant over all interleavings) + race-detector soak with isolation comparison",
   ref="§5.C17")
CLAIMED["C12"] = dict(
   text="Coq model of the generation-time validators and their wiring (coq/theories/Validate.v: unwrap table over all generated files first, then per file enum / nullable / empty_behavior / timestamp_format / bytes_encoding / flatten incl. the sequential name-collision scan and the MarshalJSON-conflict test / oneof_discriminator / HTTP configuration, first error wins; go-client = the same passes minus unwrap and HTTP; ts-server path/coverage checks) against an independent declarative statement of the documented rules (broken_rules). Theorems C12_sound, C12_sound_client, C12_any_placement, C12_complete for ALL schemas outside six gap classes, each gap with a refutation. Every run builds rule x placement (top-level, nested, service-less generated file, imported file) x surrounding-content requests plus near-miss valid definitions, several-rules-at-once requests and the valid corpora, runs the five plugins from the working tree and compares accepted/refused, error family, offender named, files-with-error with the model evaluated in Coq; the oracle uses only the plugins' answers and the case's declared rule.",
   note="Trusted: Coq kernel + vm_compute; the hand-written model tied by this run's cases (sampled schemas); the rule list itself (Spec) is a reading of the property text and docs; error family is recognised by the annotation keyword in the message text. protogen's own refusals (missing go_package etc.) are C16's subject.",
   technique="Coq proof (validator scan = declarative rule, both directions) + plugin-boundary correspondence by vm_compute",
   ref="§5.C12")
CLAIMED["C14"] = dict(
   text="Coq model of which files each Go plugin emits per proto file and which types get a MarshalJSON/UnmarshalJSON pair from which emitter (coq/theories/Files.v, incl. the client's early return for service-less files and its missing unwrap emitter); theorems C14_same_name_same_codec, C14_client_only_equiv (outside two defect classes a client-only package has exactly the server package's codec pairs), C14_order_independent, with refutations. Every run (a) compares the emitted file names of both plugins, in order, with the model on the feature catalogue, service-less variants, generate_mock variants and C12's accepted/refused requests, (b) checks directly that same-named files are byte-identical after the generator header line, (c) builds a client-only and a server-only Go package per feature schema and compares marshalled JSON documents and decoded messages for the same values.",
   note="Byte identity of same-named files and codec behaviour are checked on the implementation only (no codec semantics in the model: that is C04/C05); the model predicts file sets and which types carry their own MarshalJSON. Packages that do not compile (C13's subject) are not driven. Trusted: Coq kernel + vm_compute, the hand-written model tied by sampled schemas, the scenario runner.",
   technique="Coq proof over the file/method-set model + direct byte comparison + client-only vs server-only package behaviour",
   ref="§5.C14")
REASONS = {}
def main():
    checks = []
    for pid in ALL:
        if pid in CLAIMED:
            c = CLAIMED[pid]
            checks.append({
              "property_id": pid,
              "quick_cmd": "./check %s --tier quick" % pid,
              "thorough_cmd": "./check %s --tier thorough" % pid,
              "evidence_file": "/verif/evidence/%s.json" % pid,
              "replay_cmd_template": "./check %s --replay {path}" % pid,
              "engine": "coq+harness",
              "level_claimed": {"category": "proof", "text": c["text"], "design_ref": c["ref"]},
              "level_note": c["note"],
              "technique": c["technique"],
            })
    na = [{"property_id": p, "reason": REASONS.get(p, "check not built yet in this round (work in progress; the Coq model does not cover it yet)")} for p in ALL if p not in CLAIMED]
    m = {
      "version": 1,
      "setup_cmd": "./setup.sh",
      "hooks": {"guard": "verif", "enable": "go build -tags verif (no source hooks are needed: plugins are driven through stdin/stdout, emitted code through its public API)",
                "baseline_off_cmd": "cd /repo && GOFLAGS=-mod=mod GOPROXY=off go test -vet=off -count=1 ./...",
                "source_commits": [], "add_only": True},
      "engines": [{"name": "coq+harness", "path": "/verif/coq, /verif/harness", "serves_properties": sorted(CLAIMED),
                   "kind_free_text": "Coq 8.16 development (model, theorems) + Go correspondence harness that runs the real plugins and emitted code and evaluates the model inside Coq on the same cases"}],
      "checks": checks,
      "not_applicable": na,
      "notes": "See DESIGN.md. Known findings: KNOWN_FINDINGS.jsonl.",
    }
    json.dump(m, open("/verif/MANIFEST.json", "w"), indent=1)
if __name__ == "__main__":
    main()
