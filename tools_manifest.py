#!/usr/bin/env python3
# Regenerates MANIFEST.json from the table below (kept in one place so it stays valid).
import json, sys
ALL = ["C%02d" % i for i in range(1, 21)]
CLAIMED = {
 "C03": dict(
   text="Coq theorems C03_agree / C03_one_operation (all RPC configurations, unbounded strings) over a hand-written model of the five generators' route functions; every run re-evaluates the model inside Coq (vm_compute) on the routes extracted from the artefacts the five plugins emit from /repo's working tree and compares them case by case; outside the defect classes the theorem applies, inside them the model must reproduce the disagreement exactly (known findings).",
   note="Trusted: Coq kernel + vm_compute; the hand-written model (coq/theories/Route.v, Text.v) whose tie to the code is the per-run correspondence on the catalogue/random services (sampled schemas, not all); regex/YAML extractors of the harness. No axioms.",
   technique="Coq proof (induction over strings/RPC lists) + per-run model/implementation correspondence by vm_compute",
   ref="§5.C03"),
}
REASONS = {}
def main():
    checks = []
    for pid in ALL:
        if pid in CLAIMED:
            c = CLAIMED[pid]
            checks.append({
              "property_id": pid,
              "quick_cmd": "./check %s --tier quick" % pid,
              "thorough_cmd": "./check %s --tier thorough" % pid,
              "evidence_file": "/verif/evidence/%s.json" % pid,
              "replay_cmd_template": "./check %s --replay {path}" % pid,
              "engine": "coq+harness",
              "level_claimed": {"category": "proof", "text": c["text"], "design_ref": c["ref"]},
              "level_note": c["note"],
              "technique": c["technique"],
            })
    na = [{"property_id": p, "reason": REASONS.get(p, "check not built yet in this round (work in progress; the Coq model does not cover it yet)")} for p in ALL if p not in CLAIMED]
    m = {
      "version": 1,
      "setup_cmd": "./setup.sh",
      "hooks": {"guard": "verif", "enable": "go build -tags verif (no source hooks are needed: plugins are driven through stdin/stdout, emitted code through its public API)",
                "baseline_off_cmd": "cd /repo && GOFLAGS=-mod=mod GOPROXY=off go test -vet=off -count=1 ./...",
                "source_commits": [], "add_only": True},
      "engines": [{"name": "coq+harness", "path": "/verif/coq, /verif/harness", "serves_properties": sorted(CLAIMED),
                   "kind_free_text": "Coq 8.16 development (model, theorems) + Go correspondence harness that runs the real plugins and emitted code and evaluates the model inside Coq on the same cases"}],
      "checks": checks,
      "not_applicable": na,
      "notes": "See DESIGN.md. Known findings: KNOWN_FINDINGS.jsonl.",
    }
    json.dump(m, open("/verif/MANIFEST.json", "w"), indent=1)
if __name__ == "__main__":
    main()
