#!/usr/bin/env python3
import json,glob,sys
pid=sys.argv[1]
e=json.load(open(f'/verif/evidence/{pid}.json'))
c=e['coverage']
print({k:c[k] for k in ('evaluations','distinct_nontrivial','zone_counts','family_counts','traces_validated_against_impl','known_findings_seen') if k in c})
for f in sorted(glob.glob(f'/verif/replays/{pid}-*.json')):
    r=json.load(open(f))
    cs=r.get('case') or r.get('disagreeing_case') or {}
    print('-',f.split('/')[-1], r['kind'], cs.get('id'), 'tags=',cs.get('tags'), 'agree=',cs.get('agree'), 'diff=',cs.get('diff'), '|', cs.get('oracle_note'), '| unmod=', cs.get('unmodelled'))
    if len(sys.argv)>2:
        print(json.dumps(cs.get('input'))[:600])
        print(' obs:',json.dumps(cs.get('observed'))[:600])
        print(' pred:',json.dumps(cs.get('predicted'))[:600])
