#!/bin/bash
# Applies every seeded change in turn to /repo, runs the check of the property it breaks, undoes it.
cd /verif
out=seeded/RESULTS.txt
echo "# seeded-change regression on $(git -C /repo rev-parse --short HEAD) at $(date -u +%FT%TZ)" > $out
for d in /verif/seeded/*/; do
  k=$(basename $d)
  prop=$(python3 -c "import json,re;print(re.match(r'C\d\d', json.load(open('$d/meta.json'))['breaks_property']).group(0))")
  if ! git -C /repo apply --check $d/patch.diff 2>/dev/null; then echo "$k $prop patch-does-not-apply-to-current-HEAD" >> $out; continue; fi
  git -C /repo apply $d/patch.diff
  res=$(./check $prop 2>&1 | grep -c "^VIOLATION")
  first=$(./check $prop 2>&1 | grep "^VIOLATION" | head -1 | grep -c "no-failing-input-found")
  git -C /repo checkout -- .
  if [ "$res" -gt 0 ]; then echo "$k $prop CAUGHT violations=$res first_is_no_failing_input=$first" >> $out; else echo "$k $prop MISSED" >> $out; fi
done
git -C /repo status --short >> $out
cat $out
